"""C06 -- streaming dataframe aggregations equal pandas on everything seen so far.

Runtime monitor on the E6 engine (vf/dfengine.py).  A generated table is split into consecutive batches
(empty batches first / in the middle / last, batches emptied by an upstream filter); the REAL streaming
pipeline (streamz.dataframe) is fed batch by batch and everything it emits is recorded.  Oracle:

 prefix    after batch k, if concat(batches[:k]) has >= 1 row, exactly one value was emitted and it equals
           the same pandas aggregation over that concatenation (rtol=atol=1e-9, NaN==NaN, labels equal after
           sorting, dtype/names ignored).  Aggregations: sum, count, size, mean, var, std (aggregate(Var())
           and expanding().var()/std()), value_counts, groupby sum/count/size/mean/var/std with a column
           grouper (single, list) and a streaming-series grouper, on Series and DataFrame inputs.
 empty     nothing is compared while the prefix is empty; an exception there is only counted.
 batch     elementwise expressions, filters, column selection, assign, __setitem__, map_partitions, query,
           ...: for every batch the emitted frame equals what pandas yields on that batch (row order kept).
"""
from .. import dfengine as E

PID = 'C06'
LEVEL = 'exploration'
RULE = ('tables of 2-16 rows (x dyadic floats, y small ints, g/h few keys, RangeIndex or 1 s DatetimeIndex; input '
        'classes NaN-free / NaNs in x) x 3 random compositions into <= 13 batches (empty first/middle/last, '
        'singletons, unsplit, filter-emptied) x sampled operations: {sum,count,size,mean,var,std,value_counts} on '
        'Series/DataFrame/streaming-Series source, expanding().var/std, groupby {sum,count,size,mean,var,std} x '
        '{column, column list, streaming series} x {Series, DataFrame} selections, random expression trees; example '
        'empty or 3 foreign rows; a case (table, split, op) is non-trivial when a comparison was made after >= 2 '
        'non-empty batches; distinct by sha1(case)')
REQUIRED = ['cmp_reduction', 'cmp_groupby_col', 'cmp_groupby_ser', 'cmp_elementwise', 'cmp_on_series', 'cmp_on_frame',
            'cmp_after_empty_first_batch', 'cmp_with_nan', 'cmp_after_empty_batch']
ASSUMPTIONS = ['pandas %s is the reference; x values are multiples of 1/4 so streaming sums are exact' % E.pd.__version__,
               'pipelines are driven synchronously (Stream.emit), one pipeline per operation']

AGGS = ['sum', 'count', 'size', 'mean', 'var', 'std']
PRES = [None, None, None, ['y', '>=', 3], ['y', '>', 3], ['x', '>', 0], ['y', '<', 2], ['x', '<=', -1]]


def plan(tier):
    if tier == 'thorough':
        return {'shards': 16, 'timeout_s': 1500}
    return {'shards': 4, 'timeout_s': 240}


def n_tables(tier):
    return 60 if tier == "thorough" else 14


# ---- operation universe ----------------------------------------------------

def _ddof(rng):
    return rng.choice([1, 1, 1, 0, 2, 3])


def gen_reduction(rng):
    agg = rng.choice(AGGS + ['mean', 'var', 'value_counts'])
    pre = rng.choice(PRES)
    if agg == 'value_counts':
        tgt = rng.choice([('df', 'g'), ('df', 'y'), ('df', 'x'), ('df', 'h'), ('series', None)])
    else:
        tgt = rng.choice([('df', 'x'), ('df', 'x'), ('df', 'y'), ('df', ['x', 'y']), ('df', ['x', 'y']), ('series', None)])
    if tgt[0] == 'series' and pre is not None and pre[0] != 'x':
        pre = ['x', '>', 0]
    op = {'fam': 'red', 'src': tgt[0], 'sel': tgt[1], 'agg': agg, 'pre': pre}
    if agg in ('var', 'std'):
        op['ddof'] = _ddof(rng)
        if rng.random() < 0.3 and tgt[0] == 'df':          # the expanding() route to Var
            op['fam'] = 'exp'
            op['selpos'] = rng.choice(['before', 'after'])
    return op


def gen_groupby(rng):
    agg = rng.choice(AGGS)
    pre = rng.choice(PRES)
    r = rng.random()
    if r < 0.15:
        op = {'rootsel': ['x', 'y', 'h'], 'sel': None, 'by': rng.choice([['col', 'h'], ['ser', 'h'], ['ser', 'y%2'], ['ser', 'g']])}
    elif r < 0.3:
        op = {'rootsel': rng.choice(['x', 'y']), 'sel': None, 'by': rng.choice([['ser', 'g'], ['ser', 'h'], ['ser', 'y%2']])}
    else:
        op = {'sel': rng.choice(['x', 'x', 'y', ['x', 'y'], ['x', 'y']]),
              'by': rng.choice([['col', 'g'], ['col', 'g'], ['col', 'h'], ['col', ['g', 'h']],
                                ['ser', 'g'], ['ser', 'g'], ['ser', 'h'], ['ser', 'y%2']])}
    op.update({'fam': 'gb', 'src': 'df', 'agg': agg, 'pre': pre})
    if agg in ('var', 'std'):
        op['ddof'] = _ddof(rng)
    return op


# ---- expression trees -------------------------------------------------------

NUM = ('x', 'y', 'h')


def _col(rng, F, cols):
    c = rng.choice([c for c in cols if c != 'g'])
    return ['col', F, c, rng.choice(['attr', 'item'])] if c in ('x', 'y', 'g', 'h', 'z', 'p', 'q') else ['col', F, c, 'item']


def gen_num(rng, F, cols, depth):
    if depth <= 0 or rng.random() < 0.25:
        return _col(rng, F, cols)
    r = rng.randrange(12)
    a = gen_num(rng, F, cols, depth - 1)
    if r <= 2:
        o = rng.choice(['+', '-', '*', '/', '//', '%', '**'])
        c = rng.choice([2, 3]) if o == '**' else rng.choice([2, 0.5, 3, -1.5, 4])
        return ['bin', o, a, ['const', c]]
    if r <= 4:
        o = rng.choice(['+', '-', '*', '/', '//', '%', '**'])
        c = rng.choice([2, 0.5]) if o == '**' else rng.choice([2, 0.5, 3, -1.5, 10])
        return ['bin', o, ['const', c], a]
    if r <= 6:
        return ['bin', rng.choice(['+', '-', '*', '/', '//', '%']), a, gen_num(rng, F, cols, depth - 1)]
    if r == 7:
        return ['un', rng.choice(['neg', 'abs']), a]
    if r == 8:
        if rng.random() < 0.4:
            return ['map', 'nanflag', a, rng.choice([None, 'ignore', 'ignore'])]
        return ['map', rng.choice(['double', 'sq', 'half']), a]
    if r == 9:
        return rng.choice([['round', a, rng.choice([0, 1])], ['astype', a, 'float64']])
    if r == 10:
        return ['mp', 'demean', [a]]
    return rng.choice([['mp', 'addmul', [a, gen_num(rng, F, cols, depth - 1)], {'k': rng.choice([2, -1])}],
                       ['mp', 'addmul', [a, ['const', rng.choice([1, 2.5])]]],
                       ['mp', 'where', [a, gen_num(rng, F, cols, depth - 1)]]])


def gen_bool(rng, F, cols, depth):
    r = rng.random()
    if depth > 0 and r < 0.25:
        return ['bin', rng.choice(['&', '|', '^']), gen_bool(rng, F, cols, depth - 1), gen_bool(rng, F, cols, depth - 1)]
    if depth > 0 and r < 0.35:
        return ['un', 'inv', gen_bool(rng, F, cols, depth - 1)]
    if 'g' in cols and r < 0.45:
        return ['bin', rng.choice(['==', '!=']), ['col', F, 'g', 'item'], ['const', rng.choice(['a', 'b'])]]
    a = gen_num(rng, F, cols, depth - 1)
    b = ['const', rng.choice([0, 1, 2, 3, -0.5])] if rng.random() < 0.7 else gen_num(rng, F, cols, depth - 1)
    return ['bin', rng.choice(['>', '>=', '<', '<=', '==', '!=']), a, b]


def gen_frame(rng, depth):
    F, cols = ['root'], ['x', 'y', 'g', 'h']
    for _ in range(rng.randrange(0, depth + 1)):
        r = rng.randrange(11)
        if r <= 2:
            F = ['filter', F, gen_bool(rng, F, cols, 1)]
        elif r == 3:
            keep = [c for c in cols if rng.random() < 0.6 or c == 'x']
            F, cols = ['select', F, keep], keep
        elif r == 4:
            kv = [['z', gen_num(rng, F, cols, 1)]]
            if rng.random() < 0.3:
                kv.append(['p', gen_num(rng, F, cols, 1)])
            F, cols = ['assign', F, kv], cols + [k for k, _ in kv if k not in cols]
        elif r == 5:
            name = rng.choice(['z', 'y', 'q'])
            v = gen_num(rng, F, cols, 1) if rng.random() < 0.7 else ['const', rng.choice([0, 7, 2.5])]
            F, cols = ['setitem', F, name, v], cols + ([name] if name not in cols else [])
        elif r == 6 and 'x' in cols and 'y' in cols:
            F, cols = ['setitemf', F, ['p', 'q'], ['select', F, ['x', 'y']]], cols + [c for c in ('p', 'q') if c not in cols]
        elif r == 7:
            qs = [q for q, need in (('x > 0', 'x'), ('y >= 2 and x < 1', 'xy'), ('g == "a"', 'g'), ('h != 1', 'h'))
                  if all({'x': 'x', 'y': 'y', 'g': 'g', 'h': 'h'}[ch] in cols for ch in need)]
            if qs:
                F = ['query', F, rng.choice(qs)]
        elif r == 8:
            F = ['mp', rng.choice(['head1', 'dropna', 'rev']), [F]]
        elif r == 9:
            F = rng.choice([['tail', F, rng.choice([1, 2])], ['round', F, 0]]) if 'g' not in cols or rng.random() < 0.5 else ['tail', F, 2]
        else:
            pass
    return F, cols


def gen_expr(rng, tier):
    depth = 3 if tier == 'thorough' else 2
    F, cols = gen_frame(rng, depth)
    r = rng.random()
    if r < 0.35:
        tree = F if F != ['root'] else ['filter', F, gen_bool(rng, F, cols, 1)]
    elif r < 0.65:
        tree = gen_num(rng, F, cols, depth)
    elif r < 0.8:
        tree = gen_bool(rng, F, cols, 2)
    elif r < 0.87:
        tree = ['dict', [['a', gen_num(rng, F, cols, 1)], ['b', gen_num(rng, F, cols, 1)]]]
    elif r < 0.92:
        tree = ['to_frame', gen_num(rng, F, cols, 1)]
    else:
        tree = ['index', F]
    return {'fam': 'expr', 'src': 'df', 'tree': tree, 'pre': rng.choice([None, None, None, ['y', '>=', 3]])}


# ---- cases -------------------------------------------------------------------

def gen_cases(rng, tier):
    for _ in range(40 if tier == 'quick' else 400):
        yield E.gen_intlabel_case(rng, False)
    n_red, n_gb, n_ex = (9, 9, 5) if tier == 'quick' else (10, 10, 6)
    for ti in range(n_tables(tier)):
        tab = E.gen_table(rng, inf=True, nan=(ti % 2 == 1))
        n = len(tab['y'])
        nanpos = [i for i, v in enumerate(tab['x']) if v is None]
        for si in range(3):
            sizes = E.gen_sizes(rng, n, style=None if si else rng.choice(['random', 'nanend']), w=rng.choice([1, 2, 3]),
                                nanpos=nanpos, max_batches=9)
            ex = rng.choice(['empty', 'rows'])
            ops = [gen_reduction(rng) for _ in range(n_red)] + [gen_groupby(rng) for _ in range(n_gb)] \
                + [gen_expr(rng, tier) for _ in range(n_ex)]
            for op in ops:
                yield {'tab': tab, 'sizes': sizes, 'ex': ex, 'op': op}


def _sample(case, compared):
    return {'case': case, 'observed': 'compared with pandas after %d non-empty batches, all equal' % compared}


def _check(case, ctx):
    if case.get('intlabel'):
        return E.check_intlabel(case, ctx)
    return E.check_prefix(case, ctx)


def run_shard(seed, tier, shard, nshards):
    return E.drive(PID, seed, tier, shard, nshards, lambda rng: gen_cases(rng, tier), _check, sample_fn=_sample)


def replay(case):
    ctx = E.Ctx(PID)
    _check(case, ctx)
    return ctx.violations()
