#!/venv/bin/python
"""writes seeded/SUMMARY.md from seeded/*/meta.json"""
import glob
import json
import os

rows = []
for d in sorted(glob.glob('/verif/seeded/*/meta.json')):
    m = json.load(open(d))
    name = os.path.basename(os.path.dirname(d))
    caught_by = [k for k, v in m.get('checks', {}).items() if v['exit'] == 1]
    keys = []
    for k in caught_by:
        keys += m['checks'][k]['violation_keys'][:3]
    first = (m.get('needs_to_manifest') or '').strip().splitlines()
    title = first[0].lstrip('# ').strip() if first else ''
    rows.append((name, m.get('confirmed'), ', '.join(caught_by) or ('MISSED' if m.get('confirmed') else 'n/a (change not confirmed on the current tree)'), ' '.join(keys)[:140], title[:110]))
with open('/verif/seeded/SUMMARY.md', 'w') as f:
    f.write('# Independent seeded changes and the checks that catch them\n\n')
    f.write('Produced by sub-agents that saw only the property text and a scratch worktree; re-confirmed and run by '
            '`tools/seed_intake.py` (demo without/with change, test-suite with change, property check against the patched '
            'worktree).\n\n| seed | confirmed | caught by | violation keys (first) | change |\n|---|---|---|---|---|\n')
    for r in rows:
        f.write('| %s | %s | %s | %s | %s |\n' % r)
print(open('/verif/seeded/SUMMARY.md').read())
