"""E2 -- event recorder at the node boundary (Stream.update / Stream._emit).

Installed once per process by wrapping, from the outside, the ``update``
defined by every Stream subclass and ``Stream._emit``.  While no log is open
the wrappers are pass-through.  The recorder never keeps a strong reference to
a node (only ``id(node)`` and a weak name table), so garbage-collection
behaviour of the graph is untouched.
"""
import asyncio
import functools
import weakref

_installed = False
CURRENT = None          # the open Log, or None


class LogFull(KeyboardInterrupt):
    """a case produced an absurd number of events (livelock): abort it; derives from KeyboardInterrupt so that
    neither tornado's coroutine runner nor asyncio's callback handler swallows it"""


class Log:
    __slots__ = ('ev', 'clock', 'names', '_refs', 'classes', 'cause_stack', 'strip_stack', 'cap')

    def __init__(self, clock=None):
        self.ev = []
        self.clock = clock or (lambda: 0.0)
        self.names = {}          # id(node) -> label
        self._refs = {}          # id(node) -> weakref (to detect id reuse)
        self.classes = {}        # id(node) -> class name
        self.cause_stack = []    # ids of the metadata dicts of the enclosing update() calls
        self.strip_stack = []    # parallel: class of the node that handed data on without the metadata it had received (or None)
        self.cap = 250000

    def name(self, node, label):
        self.names[id(node)] = label
        self.classes[id(node)] = type(node).__name__
        try:
            self._refs[id(node)] = weakref.ref(node)
        except TypeError:
            pass
        return node

    def label(self, node):
        i = id(node)
        lab = self.names.get(i)
        if lab is None:
            lab = '%s@%x' % (type(node).__name__, i)
            self.names[i] = lab
            self.classes[i] = type(node).__name__
        return lab

    def add(self, kind, node, *rest):
        self.ev.append((len(self.ev), self.clock(), kind, node) + rest)
        if len(self.ev) > self.cap:
            self.cap = 10 ** 12          # raise once
            raise LogFull()

    def of(self, *kinds):
        return [e for e in self.ev if e[2] in kinds]


def _snap_md(md):
    return list(md) if isinstance(md, list) else md


def _wrap_update(orig):
    @functools.wraps(orig)
    def update(self, x, who=None, metadata=None):
        log = CURRENT
        if log is None:
            return orig(self, x, who=who, metadata=metadata)
        me = log.label(self)
        wlab = log.label(who) if who is not None else None
        if metadata and isinstance(metadata, list):
            cause = frozenset(id(d) for d in metadata if isinstance(d, dict))
            strip = None
        else:
            cause = log.cause_stack[-1] if log.cause_stack else frozenset()
            strip = None
            if cause:
                strip = (log.strip_stack[-1] if log.strip_stack and log.strip_stack[-1] else type(who).__name__)
        log.add('IN', me, wlab, x, _snap_md(metadata), cause)
        log.cause_stack.append(cause)
        log.strip_stack.append(strip)
        try:
            r = orig(self, x, who=who, metadata=metadata)
        except BaseException as e:
            log.add('RAISED', me, wlab, x, e)
            raise
        finally:
            log.cause_stack.pop()
            log.strip_stack.pop()
        if asyncio.isfuture(r):
            idx = len(log.ev)

            def done(f, log=log, me=me, x=x, idx=idx):
                if CURRENT is not log:
                    return
                exc = None if f.cancelled() else f.exception()
                log.add('ACCEPTED', me, x, exc, idx)
            if r.done():
                done(r)
            else:
                r.add_done_callback(done)
            log.add('PENDING', me, x)
        return r
    update._vf_wrapped = True
    update._vf_orig = orig
    return update


def _wrap_emit(orig):
    @functools.wraps(orig)
    def _emit(self, x, metadata=None):
        log = CURRENT
        if log is None:
            return orig(self, x, metadata=metadata)
        me = log.label(self)
        log.add('OUT', me, x, _snap_md(metadata))
        try:
            r = orig(self, x, metadata=metadata)
        except BaseException as e:
            log.add('OUT_RAISED', me, x, e)
            raise
        log.add('OUT_RET', me, x, len(r) if isinstance(r, list) else -1)
        return r
    _emit._vf_wrapped = True
    _emit._vf_orig = orig
    return _emit


def _all_subclasses(cls, seen=None):
    seen = seen if seen is not None else set()
    for sub in cls.__subclasses__():
        if sub not in seen:
            seen.add(sub)
            _all_subclasses(sub, seen)
    return seen


def install():
    """Idempotent; call again after importing more node modules."""
    global _installed
    import streamz  # noqa
    import streamz.core as score
    Stream = score.Stream
    wrapped = []
    for cls in [Stream] + sorted(_all_subclasses(Stream), key=lambda c: c.__qualname__):
        upd = cls.__dict__.get('update')
        if upd is not None and not getattr(upd, '_vf_wrapped', False):
            if asyncio.iscoroutinefunction(upd):
                continue        # e.g. to_websocket: leave native coroutine updates alone
            setattr(cls, 'update', _wrap_update(upd))
            wrapped.append(cls.__module__ + '.' + cls.__qualname__)
    em = Stream.__dict__['_emit']
    if not getattr(em, '_vf_wrapped', False):
        Stream._emit = _wrap_emit(em)
    _installed = True
    return wrapped


class recording:
    """Context manager opening a Log as the current one."""
    def __init__(self, clock=None):
        self.log = Log(clock)

    def __enter__(self):
        global CURRENT
        install()
        self._prev = CURRENT
        CURRENT = self.log
        return self.log

    def __exit__(self, *a):
        global CURRENT
        CURRENT = self._prev
        return False
