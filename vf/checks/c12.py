"""C12 -- aggregation state can be checkpointed and resumed without changing results.

Runtime monitor on the E6 engine, crash-point enumeration.  For every generated batch sequence and operation:

 run A     the REAL pipeline runs uninterrupted with its state exposed: with_state=True for rolling, window(n),
           window(value), windowed groupby, expanding, ewm and groupby.mean (std of a window / expanding / windowed
           groupby is var ** 0.5: its state is read from the twin var pipeline, because std with with_state=True raises
           TypeError on every batch -- counted as std_with_state_raised_although_plain_std_emits, not a C12 violation); for groupby sum/count and the reductions
           sum/count the result IS the state; for the reductions mean/var/std the state is exposed the way the anchor
           names -- Stream.accumulate(aggregations.accumulator, agg=..., returns_state=True, with_state=True) on the same
           input.  The sink deep-copies (state, result) the moment it sees it: that copy is the checkpoint.
 cut k     for EVERY batch k after which a state was emitted, a FRESH pipeline is built with start=copy(state_k) and fed
           batches k+1.. ; every result (or exception) must equal run A's result for the same batch (E6 comparison:
           rtol=atol=1e-9, NaN==NaN, labels equal after sorting, row-aligned for rolling).
The comparison is between two runs of streamz, never against pandas: a state that is wrong but self-consistent is C06/C07/C11
business, not C12's.
"""
import copy
import random

from .. import dfengine as E

PID = 'C12'
LEVEL = 'fault_enumeration'
EXHAUSTIVE = False
RULE = ('batch sequences = tables of 2-12 rows (NaN-free / NaNs) composed into 2-9 batches incl. empty first/middle/last and '
        'filter-emptied ones; operations sampled from reductions {sum,count,mean,var,std}, groupby {sum,count,mean} x '
        '{column, streaming series}, rolling (n / time) x 9 aggregations, window(n) / window(value) x {sum,count,mean,var,std,'
        'size,value_counts}, windowed groupby x {sum,count,size,mean,var,std}, expanding x 5, ewm.mean; for each (sequence, op) '
        'EVERY cut k with an emitted state is resumed (fault enumeration over cut points); evaluations = resumed runs; a '
        '(sequence, op) is non-trivial when >= 2 batches are non-empty and some resumed run was compared on a non-empty '
        'batch; distinct by sha1(case)')
REQUIRED = ['cuts_resumed', 'resumed_results_compared', 'cmp_reduction', 'cmp_groupby', 'cmp_rolling', 'cmp_window_n',
            'cmp_window_t', 'cmp_window_groupby', 'cmp_expanding', 'cmp_ewm', 'cuts_before_any_row', 'cuts_inside_data']
ASSUMPTIONS = ['a checkpoint is copy.deepcopy of the emitted state at the sink',
               'reductions without a with_state= keyword (mean/var/std) expose their state through Stream.accumulate with the '
               'same binary operator (aggregations.accumulator), as the property anchor describes']

PRES = [None, None, None, None, ['y', '>=', 3], ['x', '>', 0]]


def plan(tier):
    if tier == 'thorough':
        return {'shards': 16, 'timeout_s': 1500}
    return {'shards': 4, 'timeout_s': 240}


def n_tables(tier):
    return 55 if tier == 'thorough' else 8


def _tgt(rng, allow_series=True):
    if allow_series and rng.random() < 0.12:
        return {'src': 'series', 'sel': None, 'selpos': 'before'}
    return {'src': 'df', 'sel': rng.choice(['x', 'x', 'y', ['x', 'y']]), 'selpos': rng.choice(['before', 'after'])}


def _win(rng, timed):
    return ['t', rng.choice([1, 2, 5])] if timed and rng.random() < 0.5 else ['n', rng.choice([1, 2, 3, 5])]


def gen_ops(rng, timed, tier):
    ops = []
    for _ in range(4):
        op = {'fam': 'red', 'agg': rng.choice(['sum', 'count', 'mean', 'mean', 'var', 'std'])}
        op.update(_tgt(rng))
        ops.append(op)
    for _ in range(4):
        op = {'fam': 'gb', 'src': 'df', 'agg': rng.choice(['sum', 'count', 'mean', 'mean']), 'sel': rng.choice(['x', 'y', ['x', 'y']]),
              'by': rng.choice([['col', 'g'], ['col', 'h'], ['col', ['g', 'h']], ['ser', 'g'], ['ser', 'y%2']])}
        ops.append(op)
    for _ in range(4):
        op = {'fam': 'roll', 'agg': rng.choice(['sum', 'mean', 'min', 'max', 'median', 'std', 'var', 'count', 'quantile']), 'win': _win(rng, timed), 'minp': rng.choice([None, None, 1, 2, 3])}
        op.update(_tgt(rng))
        if op['agg'] == 'quantile':
            op['args'] = [rng.choice([0.25, 0.5])]
        ops.append(op)
    for _ in range(5):
        op = {'fam': 'win', 'agg': rng.choice(['sum', 'count', 'mean', 'mean', 'var', 'std', 'size', 'value_counts']), 'win': _win(rng, timed)}
        op.update(_tgt(rng))
        if op['agg'] == 'value_counts':
            op.update({'src': 'df', 'sel': rng.choice(['g', 'y'])})
        ops.append(op)
    for _ in range(4):
        op = {'fam': 'wgb', 'src': 'df', 'agg': rng.choice(['sum', 'count', 'size', 'mean', 'var', 'std']), 'win': _win(rng, timed),
              'sel': rng.choice(['x', 'y', ['x', 'y']]), 'by': rng.choice([['col', 'g'], ['col', 'h'], ['wser', 'g'], ['wser', 'y%2'], ['ser', 'g']])}
        ops.append(op)
    for _ in range(3):
        op = {'fam': 'exp', 'agg': rng.choice(['sum', 'count', 'mean', 'var', 'std'])}
        op.update(_tgt(rng))
        ops.append(op)
    for _ in range(2):
        op = {'fam': 'ewm', 'agg': 'mean', 'par': rng.choice([{'com': 0.5}, {'com': 2}, {'span': 3}, {'alpha': 0.5}, {'halflife': 2}])}
        op.update(_tgt(rng))
        ops.append(op)
    for op in ops:
        if op['fam'] == 'win' and op['win'][0] == 'n' and op.get('src') == 'df' and op.get('sel') is not None \
                and op['agg'] not in ('size', 'value_counts') and rng.random() < 0.3:
            op['ridx'] = True           # window(n, start=state).reset_index()[sel].agg()
            op['selpos'] = 'after'
        if op['fam'] in ('win', 'exp') and op['agg'] not in ('size', 'value_counts') and rng.random() < 0.3:
            # an element-wise step on the windowed object between window(..., start=state) and the aggregation
            op['wexpr'] = rng.choice(['neg', 'add', 'mul', 'rsub'])
        if op.get('agg') in ('var', 'std') and op['fam'] != 'roll':
            op['ddof'] = rng.choice([1, 1, 0, 2, 3])
        op['pre'] = rng.choice(PRES)
        if op.get('src') == 'series' and op['pre'] is not None:
            op['pre'] = ['x', '>', 0]
        op['resume_with_state'] = rng.random() < 0.5
    return ops


def gen_cases(rng, tier):
    for ti in range(n_tables(tier)):
        tab = E.gen_table(rng, n=rng.choice([2, 3, 4, 5, 6, 8, 10, 12]), nan=(ti % 2 == 1), time=(ti % 4 < 2))
        n = len(tab['y'])
        nanpos = [i for i, v in enumerate(tab['x']) if v is None]
        for si in range(2):
            sizes = [n]
            while len(sizes) < 2:
                sizes = E.gen_sizes(rng, n, style=rng.choice(['random', 'random', 'ones', 'lt', 'eq', 'nanend']), w=rng.choice([2, 3]),
                                    nanpos=nanpos, max_batches=7)
            ex = rng.choice(['empty', 'rows'])
            for op in gen_ops(rng, tab['t'] is not None, tier):
                yield {'tab': tab, 'sizes': sizes, 'ex': ex, 'op': op, 'late_resume': rng.random() < 0.35}


# ---- state exposure ------------------------------------------------------------

def exposure(op):
    """how run A exposes its state: 'with_state' | 'result' | 'raw' | 'via-var'"""
    fam, agg = op['fam'], op['agg']
    if agg == 'std' and fam in ('win', 'wgb', 'exp'):
        # std() is var() ** 0.5: its state is Var's state.  With with_state=True the power is applied to the
        # (state, result) tuple and every emit raises TypeError (recorded as evidence, see run_a), so the state
        # is taken from the twin var() pipeline and the results from the plain std() pipeline.
        return 'via-var'
    if fam == 'red':
        return 'result' if agg in ('sum', 'count') else 'raw'
    if fam == 'gb':
        return 'with_state' if agg == 'mean' else 'result'
    return 'with_state'


class StateNotExposed(Exception):
    pass


def run_a(case, ctx):
    """-> (batches, results[k] or None, errs[k], states[k] or None, build_error)"""
    op = case['op']
    mode = exposure(op)
    df, batches, tr = E.run_with_example_fallback(case, ctx, with_state=(mode == 'with_state'), snapshot=True)
    nb = len(batches)
    if tr.build_error is not None:
        return batches, None, None, None, tr.build_error
    results, states = [None] * nb, [None] * nb
    raw_states = [None] * nb       # the emitted state objects themselves, as they are once the run has finished
    for k in range(nb):
        if tr.errs[k] is not None or len(tr.outs[k]) != 1:
            continue
        o = tr.outs[k][0]
        if mode == 'with_state':
            if not (isinstance(o, tuple) and len(o) == 2):
                # with_state=True was asked for and what comes out is not a (state, result) pair
                return batches, None, None, None, StateNotExposed('with_state=True, but batch %d emitted %s' % (k + 1, E.show(o, 80)))
            states[k], results[k] = o[0], o[1]
            raw_states[k] = tr.raw[k][0][0]
        else:
            results[k] = o
            if mode == 'result':
                states[k] = copy.deepcopy(o)
    if mode == 'via-var':
        _, _, vtr = E.run_with_example_fallback(dict(case, op=dict(op, agg='var')), ctx, with_state=True, snapshot=True)
        if vtr.build_error is not None:
            return batches, None, None, None, vtr.build_error
        for k in range(nb):
            if vtr.errs[k] is None and len(vtr.outs[k]) == 1 and tr.errs[k] is None:
                states[k] = vtr.outs[k][0][0]
        _, _, ptr = E.run_with_example_fallback(case, ctx, with_state=True)
        seen = 0
        for k in range(nb):
            seen += len(E.p_root(op, batches[k]))
            if ptr.build_error is None and seen > 0 and ptr.errs[k] is not None and tr.errs[k] is None:
                ctx.count('std_with_state_raised_although_plain_std_emits')
                ctx.note('state_exposure_unusable', '%s with_state=True: %s' % (E.op_label(op), type(ptr.errs[k]).__name__))
    if mode == 'raw':
        raw_case = dict(case)
        _, _, rtr = E.run_with_example_fallback(raw_case, ctx, raw=True, snapshot=True)
        if rtr.build_error is not None:
            return batches, None, None, None, rtr.build_error
        for k in range(nb):
            if rtr.errs[k] is None and len(rtr.outs[k]) == 1 and tr.errs[k] is None:
                states[k] = rtr.outs[k][0][0]
    run_a.raw_states = raw_states
    return batches, results, tr.errs, states, None


def check_case(case, ctx):
    """-> (resumed runs, non-trivial?)"""
    ctx.begin_case()
    op = case['op']
    fam = op['fam']
    E.set_tolerance(case['tab'])
    batches, results, errs, states, berr = run_a(case, ctx)
    eff = [E.p_root(op, b) for b in batches]
    lens = [len(e) for e in eff]
    targets = [E.p_target(op, e) for e in eff]
    cls = E.input_class(targets)
    label = E.op_label(op, targets[0])
    ctx.note('operations', label)
    ctx.note('state_exposure', '%s: %s' % (fam, exposure(op)))
    ctx.note('input_classes', cls)
    for f in E.split_features(case['sizes'], lens):
        ctx.note('split_features', f)
    if isinstance(berr, StateNotExposed):
        ctx.violate('state-not-exposed@%s' % label, '%s: %s (the window was built with with_state=True: a later step dropped it)'
                    % (label, berr), case)
        return 0, False
    if berr is not None:
        ctx.count('uninterrupted_run_cannot_be_built')
        ctx.note('unbuildable', '%s: %r' % (label, berr))
        return 0, False
    head = '%s%s, input class %s, example %s%s: batches %s' % (
        label, ' %s' % (op.get('args') or op.get('par') or '',), cls, case.get('ex'),
        ', upstream filter %s' % (op['pre'],) if op.get('pre') else '', E.show_batches(targets))
    a_seq = [E.show(errs[k], 60) if errs[k] is not None else E.show(results[k], 100) for k in range(len(batches))]
    example = E.example_df(case['tab'], case.get('ex', 'rows'))
    resumed, interesting, cum = 0, False, 0
    cmpname = {'red': 'cmp_reduction', 'gb': 'cmp_groupby', 'roll': 'cmp_rolling', 'wgb': 'cmp_window_groupby',
               'exp': 'cmp_expanding', 'ewm': 'cmp_ewm'}.get(fam) or 'cmp_window_' + op['win'][0]
    for k in range(len(batches) - 1):
        cum += lens[k]
        if states[k] is None:
            ctx.count('cuts_without_emitted_state')
            continue
        cutcls = cls + ('/cut-before-any-row' if cum == 0 else '')
        ctx.count('cuts_resumed')
        ctx.count('cuts_before_any_row' if cum == 0 else 'cuts_inside_data')
        resumed += 1
        ws = bool(op.get('resume_with_state')) and exposure(op) == 'with_state'
        late = bool(case.get('late_resume')) and run_a.raw_states[k] is not None
        if late:
            # the state object exactly as emitted, used only after the producing pipeline has moved on: an emitted
            # state must be a snapshot, not a view of structures the pipeline keeps mutating
            ctx.count('cuts_resumed_late_from_the_emitted_object')
            start_state = run_a.raw_states[k]
        else:
            start_state = copy.deepcopy(states[k])
        tr = E.run_pipeline(op, example, batches[k + 1:], start=start_state, with_state=ws)
        if tr.build_error is not None and case.get('ex') == 'empty':
            ctx.count('resume_build_exception_on_empty_example')
            tr = E.run_pipeline(op, E.example_df(case['tab'], 'rows'), batches[k + 1:], start=copy.deepcopy(states[k]), with_state=ws)
        where = '%s; uninterrupted results %s; resumed from the state after batch %d = %s' % (head, a_seq, k + 1, _show_state(states[k]))
        if tr.build_error is not None:
            ctx.violate('resume-build-exception@%s:%s' % (label, cutcls), '%s -> building the resumed pipeline raised %r'
                        % (where, tr.build_error), case)
            continue
        for j in range(len(tr.outs)):
            i = k + 1 + j
            ctx.count('resumed_results_compared')
            ctx.count(cmpname)
            ctx.count('cmp_op_%s.%s' % (fam, op['agg']))
            if lens[i] > 0:
                interesting = True
            ea, eb = errs[i], tr.errs[j]
            if ea is not None and eb is not None:
                ctx.count('both_runs_raised')
                continue
            if eb is not None:
                ctx.violate('resumed-%sraised@%s:%s' % ('late-' if late else '', label, cutcls), '%s -> resumed run raised %r at batch %d' % (where, eb, i + 1), case)
                continue
            if ea is not None:
                ctx.violate('resumed-did-not-raise@%s:%s' % (label, cutcls), '%s -> uninterrupted run raised %r at batch %d, resumed run emitted %s'
                            % (where, ea, i + 1, [E.show(o, 80) for o in tr.outs[j]]), case)
                continue
            if len(tr.outs[j]) != 1 or results[i] is None:
                ctx.violate('resumed-no-value@%s:%s' % (label, cutcls), '%s -> %d values at batch %d' % (where, len(tr.outs[j]), i + 1), case)
                continue
            got = tr.outs[j][0]
            if ws:
                got = got[1]
            d = E.compare(got, results[i], ordered=(fam in ('roll', 'ewm')))
            if d is not None:
                ctx.violate('resumed-%s%s@%s:%s' % ('late-' if late else '', d[0], label, cutcls), '%s -> at batch %d the resumed run emitted %s, the uninterrupted run %s (%s)'
                            % (where, i + 1, E.show(got), E.show(results[i]), d[1]), case)
    nontrivial = interesting and sum(1 for n_ in lens if n_ > 0) >= 2
    return resumed, nontrivial


def _show_state(s, limit=300):
    if isinstance(s, dict):
        r = '{%s}' % ', '.join('%s: %s' % (k, _show_state(v, 120)) for k, v in s.items())
    elif isinstance(s, (tuple, list)) or type(s).__name__ == 'deque':
        r = '(%s)' % ', '.join(_show_state(v, 120) for v in s)
    else:
        r = E.show(s, 120)
    return r if len(r) <= limit else r[:limit] + '...'


def run_shard(seed, tier, shard, nshards):
    rng = random.Random('%s-%d-%d-%s' % (PID, seed, shard, tier))
    ctx = E.Ctx(PID)
    keys, samples, evals = [], [], 0
    for case in gen_cases(rng, tier):
        ctx.count('sequences_x_operations')
        resumed, nontrivial = check_case(case, ctx)
        evals += resumed
        if nontrivial:
            keys.append(E.case_key(case))
            if len(samples) < 2 and not ctx.case_seen:
                samples.append({'case': case, 'observed': '%d cuts resumed, every resumed result equals the uninterrupted one' % resumed})
    return ctx.result(evals, keys, samples)


def replay(case):
    ctx = E.Ctx(PID)
    check_case(case, ctx)
    return ctx.violations()
