"""Command line driver: tiers, seeds, sharding, evidence, verdict protocol.

    ./check C07 quick            (env VERIF_SEED, VERIF_TIER honoured)
    ./check C07 thorough
    ./check C07 --replay replays/C07-....json

Exit codes: 0 held on everything explored (possibly after KNOWN-FINDING lines),
1 + ``VIOLATION property=<id> replay=<path>`` for an unlisted violation,
2 + ``INCONCLUSIVE ...`` when a deciding monitor was never reached or a
watchdog fired.  See DESIGN.md section 1.9.
"""
import importlib
import json
import os
import subprocess
import sys
import time

HERE = os.path.dirname(os.path.dirname(os.path.abspath(__file__)))
WORK = os.path.join(HERE, '.work')
EVID = os.path.join(HERE, 'evidence')
REPLAYS = os.path.join(HERE, 'replays')
KNOWN = os.path.join(HERE, 'known_findings.json')


def load_known(pid):
    try:
        with open(KNOWN) as f:
            data = json.load(f)
    except FileNotFoundError:
        return {}
    out = {}
    for e in data.get('findings', []):
        if e.get('property') == pid and e.get('status') == 'known':
            out[e['key']] = e
    return out


def load_check(pid):
    return importlib.import_module('vf.checks.%s' % pid.lower())


def merge(results):
    tot = {'evaluations': 0, 'keys': set(), 'violations': [], 'samples': [],
           'counters': {}, 'sets': {}, 'inconclusive': []}
    for r in results:
        tot['evaluations'] += r.get('evaluations', 0)
        tot['keys'].update(r.get('keys', []))
        tot['violations'].extend(r.get('violations', []))
        for s in r.get('samples', []):
            if len(tot['samples']) < 6:
                tot['samples'].append(s)
        for k, v in r.get('counters', {}).items():
            tot['counters'][k] = tot['counters'].get(k, 0) + v
        for k, v in r.get('sets', {}).items():
            tot['sets'].setdefault(k, set()).update(v)
        tot['inconclusive'].extend(r.get('inconclusive', []))
    return tot


def run_shards(pid, tier, seed, plan):
    os.makedirs(WORK, exist_ok=True)
    n = plan['shards']
    procs = []
    env = dict(os.environ)
    for i in range(n):
        out = os.path.join(WORK, '%s-%s-%d-%d-%d.json' % (pid, tier, seed, i, os.getpid()))
        if os.path.exists(out):
            os.remove(out)
        # output goes to a file, never to a pipe: a shard whose pipe is full (tracebacks logged by tornado for injected
        # failures) would block in write() until somebody reads it
        logf = open(out + '.log', 'wb')
        p = subprocess.Popen([sys.executable, '-u', '-m', 'vf.shard', pid, tier,
                              str(seed), str(i), str(n), out],
                             cwd=HERE, env=env, stdout=logf, stderr=subprocess.STDOUT)
        logf.close()
        procs.append((i, p, out))
    results, inconclusive = [], []
    deadline = time.time() + plan['timeout_s']
    for i, p, out in procs:
        left = max(1.0, deadline - time.time())
        try:
            p.wait(timeout=left)
        except subprocess.TimeoutExpired:
            p.kill()
            p.wait()
            inconclusive.append('shard %d: wall-clock watchdog (%ds) fired' % (i, plan['timeout_s']))
        stdout = b''
        try:
            with open(out + '.log', 'rb') as f:
                f.seek(0, 2)
                f.seek(max(0, f.tell() - 4000))
                stdout = f.read()
            os.remove(out + '.log')
        except OSError:
            pass
        if os.path.exists(out):
            try:
                with open(out) as f:
                    results.append(json.load(f))
            except ValueError:
                inconclusive.append('shard %d: unreadable result' % i)
            os.remove(out)
        else:
            tail = (stdout or b'').decode('utf8', 'replace')[-1500:]
            inconclusive.append('shard %d: no result (exit %s): %s' % (i, p.returncode, tail))
    tot = merge(results)
    tot['inconclusive'].extend(inconclusive)
    return tot


def write_evidence(mod, pid, tier, seed, tot, wall, n_viol, known_hit):
    os.makedirs(EVID, exist_ok=True)
    cov = {
        'evaluations': tot['evaluations'],
        'distinct_nontrivial': len(tot['keys']),
        'rule': mod.RULE,
        'samples': tot['samples'][:6],
        'oracle_clause_evaluations': dict(sorted(tot['counters'].items())),
        'known_findings_hit': sorted(known_hit),
        'inconclusive_runs': tot['inconclusive'][:20],
    }
    for k, v in tot['sets'].items():
        vs = sorted(v, key=str)
        cov[k + '_count'] = len(vs)
        cov[k] = vs[:60]
    if getattr(mod, 'EXHAUSTIVE', False):
        cov['exhaustive'] = True
    ev = {
        'property_id': pid, 'tier': tier, 'seed': seed, 'level': mod.LEVEL,
        'coverage': cov,
        'assumptions': list(getattr(mod, 'ASSUMPTIONS', [])),
        'wall_s': round(wall, 2), 'violations': n_viol,
    }
    with open(os.path.join(EVID, pid + '.json'), 'w') as f:
        json.dump(ev, f, indent=1, default=str, sort_keys=False)
        f.write('\n')


def report(mod, pid, tier, seed, tot, wall):
    known = load_known(pid)
    known_hit, unlisted = set(), []
    for v in tot['violations']:
        if v['key'] in known:
            known_hit.add(v['key'])
        else:
            unlisted.append(v)
    for k in sorted(known_hit):
        print('KNOWN-FINDING: property=%s %s -- %s' % (pid, k, known[k].get('what_fails', '')))
    write_evidence(mod, pid, tier, seed, tot, wall, len(unlisted), known_hit)
    print('%s %s seed=%d: evaluations=%d distinct_nontrivial=%d wall=%.1fs' % (
        pid, tier, seed, tot['evaluations'], len(tot['keys']), wall))
    print('  oracle clause evaluations: %s' % json.dumps(dict(sorted(tot['counters'].items()))))
    for k, v in tot['sets'].items():
        print('  %s: %d' % (k, len(v)))
    if unlisted:
        os.makedirs(REPLAYS, exist_ok=True)
        seen = {}
        for v in unlisted:
            n = seen.get(v['key'], 0)
            seen[v['key']] = n + 1
            if n >= 3:
                continue
            path = os.path.join(REPLAYS, '%s-%d-%s-%d.json' % (
                pid, seed, ''.join(c if c.isalnum() else '_' for c in v['key'])[:60], n))
            with open(path, 'w') as f:
                json.dump({'property': pid, 'key': v['key'], 'what': v.get('what'),
                           'case': v.get('case')}, f, indent=1, default=str)
            print('  violation %s: %s' % (v['key'], str(v.get('what'))[:600]))
            print('VIOLATION property=%s replay=%s' % (pid, path))
        return 1
    for m in tot['inconclusive'][:6]:
        print('  inconclusive: %s' % m[:1200])
    missing = [c for c in getattr(mod, 'REQUIRED', []) if tot['counters'].get(c, 0) <= 0]
    if missing:
        print('INCONCLUSIVE property=%s deciding clauses never evaluated: %s' % (pid, missing))
        return 2
    if tot['inconclusive']:
        allowed = getattr(mod, 'INCONCLUSIVE_BUDGET', 0.02)
        if len(tot['inconclusive']) > max(0, int(allowed * max(1, tot['evaluations']))):
            print('INCONCLUSIVE property=%s %d runs inconclusive' % (pid, len(tot['inconclusive'])))
            return 2
    if len(tot['keys']) < 2 or tot['evaluations'] < 1:
        print('INCONCLUSIVE property=%s too few cases' % pid)
        return 2
    print('HELD property=%s on everything explored' % pid)
    return 0


def main(argv):
    if not argv:
        print(__doc__)
        return 2
    pid = argv[0].upper()
    tier = os.environ.get('VERIF_TIER', 'quick')
    seed = int(os.environ.get('VERIF_SEED', '0'))
    replay = None
    i = 1
    while i < len(argv):
        a = argv[i]
        if a in ('quick', 'thorough'):
            tier = a
        elif a == '--replay':
            i += 1
            replay = argv[i]
        elif a == '--seed':
            i += 1
            seed = int(argv[i])
        i += 1
    mod = load_check(pid)
    t0 = time.time()
    if replay:
        with open(replay) as f:
            rep = json.load(f)
        viols = mod.replay(rep['case'])
        known = load_known(pid)
        rc = 0
        for v in viols:
            if v['key'] in known:
                print('KNOWN-FINDING: property=%s %s' % (pid, v['key']))
            else:
                print('  violation %s: %s' % (v['key'], str(v.get('what'))[:1500]))
                print('VIOLATION property=%s replay=%s' % (pid, replay))
                rc = 1
        if not viols:
            print('replay: no violation')
        return rc
    plan = mod.plan(tier)
    tot = run_shards(pid, tier, seed, plan)
    return report(mod, pid, tier, seed, tot, time.time() - t0)


if __name__ == '__main__':
    sys.exit(main(sys.argv[1:]))
