"""C08 -- time windows conserve elements and honour their deadline.

Virtual-time runs of source(s) -> [map] -> timed_window | timed_window_unique | partition(n, timeout[, key]) ->
[flatten] -> consumer, with arrivals placed before / exactly at / after ticks and timeouts, bursts, and arrivals
while the node is blocked by a slow consumer.  Oracle on the node's recorded history:
 conservation  every arrival is in exactly one batch (keep-first/keep-last rule for timed_window_unique, per key for
               partition), batches preserve arrival order, nothing is left behind at quiescence;
 size          a partition never exceeds n, is never empty, mixes no keys;
 timer         a full partition is emitted at the instant of its last member; a partial one exactly one timeout
               after its first member (a size flush therefore cancelled its timer: no spurious partial flush);
 deadline      t_emit - t_arrive <= interval + time the node was blocked by downstream within that span, where
               blocked spans are measured independently from the consumers' END events of each emission.
"""
import random

from .. import aprogs, asyncrun, progs

PID = 'C08'
LEVEL = 'exploration'
RULE = ('source(s)->[map]->timed_window|timed_window_unique|partition(timeout)->[flatten]->consumer; intervals/timeouts '
        '{.5,1,2} (partition also timeout=0), n in {1,2,3,4}, keys mod2/mod3/ident; 1-3 producers with gaps on the same grid as the intervals so '
        'that arrivals coincide with ticks; consumers sync/coroutine/Future with service times {0..2} (backpressure); '
        'non-trivial = >=1 non-empty batch and >=3 arrivals; distinct by hash(case)')
REQUIRED = ['batchers_checked', 'timeout_partitions_checked', 'deadlines_checked']
ASSUMPTIONS = ['virtual clock; coincident timers may fire in either order, both orders are accepted']
INCONCLUSIVE_BUDGET = 0.03
EPS = 1e-6


def plan(tier):
    if tier == 'thorough':
        return {'shards': 16, 'timeout_s': 1700}
    return {'shards': 8, 'timeout_s': 280}


def n_cases(tier):
    return 36000 if tier == 'thorough' else 500


def one_case(rng, tier):
    nodes = [{'id': 'n0', 'op': 'source', 'ups': []}]
    last = 'n0'
    if rng.random() < 0.2:
        nodes.append({'id': 'm0', 'op': 'map', 'ups': [last], 'f': 'inc'})
        last = 'm0'
    kind = rng.choice(['timed_window', 'timed_window_unique', 'partition', 'partition'])
    T = rng.choice([0.5, 1.0, 2.0])
    if kind == 'timed_window':
        nodes.append({'id': 'tw', 'op': 'timed_window', 'ups': [last], 'interval': T, 'ival_str': rng.random() < 0.25})
    elif kind == 'timed_window_unique':
        nodes.append({'id': 'tw', 'op': 'timed_window_unique', 'ups': [last], 'interval': T, 'ival_str': rng.random() < 0.25,
                      'key': rng.choice(['ident', 'mod2', 'mod3']), 'keep': rng.choice(['first', 'last'])})
    else:
        if rng.random() < 0.12:
            T = 0               # legal boundary: flush a partial partition at once (next loop turn)
        nodes.append({'id': 'tw', 'op': 'partition', 'ups': [last], 'n': rng.choice([1, 2, 2, 3, 4]), 'timeout': T,
                      'timeout_np': rng.choice([None, None, None, None, 'float64', 'float32'] + (['int64'] if T == int(T) and T > 0 else [])),
                      'key': rng.choice([None, None, 'mod2', 'mod3', 'ident'])})
    last = 'tw'
    if rng.random() < 0.4:
        nodes.append({'id': 'fl', 'op': 'flatten', 'ups': [last]})
        last = 'fl'
    g = aprogs.AGen(rng)
    if kind == 'partition' and rng.random() < 0.35:
        # a second, independent partition node with a timeout fed by the same elements: its timers are its own
        nodes.append({'id': 'tw2', 'op': 'partition', 'ups': ['n0'], 'n': rng.choice([2, 3, 4, 5]), 'timeout': rng.choice([0.5, 1.0, 2.0]),
                      'key': rng.choice([None, None, 'mod2'])})
        nodes.append({'id': 'sk2', 'op': 'sink', 'ups': ['tw2'], 'kind': rng.choice(['sync', 'coro']), 'svc': [0]})
    nodes.append({'id': 'sk', 'op': 'sink', 'ups': [last], 'kind': rng.choice(['sync', 'coro', 'coro', 'future', 'tornado', 'awaitable']), 'svc': g._svc()})
    prog = {'nodes': nodes, 'extra_edges': []}
    prods = []
    grid = [0, 0, 0.25, 0.5, 0.5, 1.0, 1.0, 2.0, 3.0]
    for p in range(rng.choice([1, 1, 2, 3])):
        prods.append([[rng.choice(grid), 'n0', rng.randrange(6), 1] for _ in range(rng.randrange(1, 10))])
    case = {'prog': prog, 'producers': prods, 'awaiting': rng.random() < 0.5}
    if rng.random() < 0.12:
        for s_ in case['prog']['nodes']:
            if s_['op'] == 'sink' and s_.get('kind') == 'sync':
                # a plain function that takes its time on the loop thread: no timer can fire meanwhile
                s_['kind'] = 'sync_block'
                s_['svc'] = [rng.choice([0, 0, 0.25, 0.75, 1.5]) for _ in range(3)]
    if rng.random() < 0.2:
        case['t0'] = 1.7e9          # a clock that reads like time.time(), not like a stopwatch
    if rng.random() < 0.15:
        # the node is cut off from its upstream while it holds elements (they still come out at the tick / timeout) and, in
        # most cases, connected again later: what it receives then is batched and delivered like before
        feeder = [s_ for s_ in nodes if s_['id'] == 'tw'][0]['ups'][0]
        p = prods[0]
        k = rng.randrange(1, len(p) + 1)
        p.insert(k, [rng.choice([0, 0, 0.25, 0.5]), '!disconnect', [feeder, 'tw'], 0])
        if rng.random() < 0.7:
            p.insert(rng.randrange(k + 1, len(p) + 1), [rng.choice([0.25, 0.5, 1.0, 2.5, 3.0]), '!connect', [feeder, 'tw'], 0])
    return case


def blocked_spans(log, nid):
    """[(t_out, t_unblocked)] per emission of node nid, from the END events of the consumer calls made during the
    synchronous phase of that emission"""
    spans = []
    ev = log.ev
    i = 0
    while i < len(ev):
        e = ev[i]
        if e[2] == 'OUT' and e[3] == nid:
            depth = 0
            calls = set()
            j = i
            while j < len(ev):
                f = ev[j]
                if f[2] == 'OUT' and f[3] == nid:
                    depth += 1
                elif f[2] in ('OUT_RET', 'OUT_RAISED') and f[3] == nid:
                    depth -= 1
                    if depth == 0:
                        break
                elif f[2] == 'CALLED':
                    calls.add((f[3], f[5]))
                j += 1
            end = e[1]
            for f in ev[i:]:
                if f[2] in ('END', 'FAILED') and (f[3], f[5]) in calls:
                    end = max(end, f[1])
            spans.append((e[1], end))
            i = j
        i += 1
    return spans


def check_case(case, counters, sets):
    ar = asyncrun.run_async(case)
    if ar.stop in ('iter-cap', 'vt-cap', 'watchdog'):
        return ar, None
    viols, seen = [], set()

    def add(key, what):
        if key not in seen:
            seen.add(key)
            viols.append({'key': key, 'what': what, 'case': case})
    for name, msg, exc in ar.errors:
        add('C08:loop-exception:%s' % (type(exc).__name__ if exc is not None else 'log'), '%s %s %r' % (name, msg[:200], exc))
    for i, exc in ar.emit_exc.items():
        add('C08:emit-raised:%s' % type(exc).__name__, 'emit #%d raised %r' % (i, exc))
    V, C = asyncrun.local_checks(case, ar)
    for k, v in C.items():
        counters[k] = counters.get(k, 0) + v
    for clause, op, detail in V:
        add('C08:%s@%s' % (clause, op), str(detail))
    spec = [s for s in case['prog']['nodes'] if s['id'] == 'tw'][0]
    ins, outs = asyncrun.by_node(ar.log)
    I, O = ins.get('tw', []), outs.get('tw', [])
    T = spec.get('interval', spec.get('timeout'))
    spans = blocked_spans(ar.log, 'tw')
    n_nonempty = 0
    # which emission carried each arrival: by metadata identity
    where = {}
    for e in O:
        if len(e[4]):
            n_nonempty += 1
        for m in asyncrun._mdids(e[5]):
            where.setdefault(m, e)
    for a in I:
        ids = asyncrun._mdids(a[6])
        if not ids or ids[0] not in where:
            continue            # dropped by the unique rule, or reported as never emitted
        e = where[ids[0]]
        counters['deadlines_checked'] = counters.get('deadlines_checked', 0) + 1
        blocked = sum(max(0.0, min(b1, e[1]) - max(b0, a[1])) for b0, b1 in spans if b1 > a[1] and b0 < e[1])
        # plus the time during which a consumer kept the loop thread itself busy (no timer can fire then)
        blocked += sum(max(0.0, min(b1, e[1]) - max(b0, a[1])) for b0, b1 in asyncrun.loop_blocks(ar) if b1 > a[1] and b0 < e[1])
        if e[1] - a[1] > T + blocked + EPS:
            add('C08:deadline@%s' % spec['op'],
                '%s(%s): element %r arrived at t=%s, emitted at t=%s: %.3f later, but interval + blocked time is only %.3f + %.3f'
                % (spec['op'], T, a[5], a[1], e[1], e[1] - a[1], T, blocked))
    ar.interesting = n_nonempty >= 1 and len(I) >= 3
    sets.setdefault('interleaving_signatures', set()).add(asyncrun.signature(ar.log))
    sets.setdefault('timed_nodes', set()).add(spec['op'] + ('+key' if spec.get('key') else ''))
    counters['events_observed'] = counters.get('events_observed', 0) + len(ar.log.ev)
    if any(b1 > b0 for b0, b1 in spans):
        counters['runs_with_backpressure_on_the_node'] = counters.get('runs_with_backpressure_on_the_node', 0) + 1
    return ar, viols


def run_shard(seed, tier, shard, nshards):
    rng = random.Random('%s-%d-%d-%s' % (PID, seed, shard, tier))
    out = {'evaluations': 0, 'keys': [], 'violations': [], 'samples': [], 'counters': {},
           'sets': {}, 'inconclusive': []}
    for k in range(n_cases(tier)):
        case = one_case(rng, tier)
        ar, viols = check_case(case, out['counters'], out['sets'])
        out['evaluations'] += 1
        if viols is None:
            out['inconclusive'].append('case %d: %s' % (k, ar.stop))
            continue
        if ar.interesting:
            out['keys'].append(progs.prog_key(case, None))
        out['violations'].extend(viols)
        if len(out['samples']) < 2 and ar.interesting:
            ins, outs = asyncrun.by_node(ar.log)
            out['samples'].append({'case': case,
                                   'arrivals(t,x)': [[round(e[1], 3), e[5]] for e in ins.get('tw', [])][:20],
                                   'batches(t,batch)': [[round(e[1], 3), list(e[4])] for e in outs.get('tw', []) if len(e[4])][:20]})
    return out


def replay(case):
    _, viols = check_case(case, {}, {})
    return viols or []
