"""C04 -- checkpoint safety: the completion signal never precedes completion,
and is never given for an element whose processing raised.

Every element carries an instrumented RefCounter.  The instant the real
RefCounter hands its callback to the loop is the completion signal (trigger).
Offline over the recorded history, for each element e:
 (a) no node receives data derived from e after e's trigger (so it was still buffered / waiting in a timing
     node / being computed when the signal was given) -- blamed on the node that emitted late;
 (b) no consumer call on data derived from e starts or ends after e's trigger;
 (c) if handling of e failed anywhere (consumer raised, mapped coroutine raised, emit raised) there is no
     trigger at all.
"Derived from" = the element's metadata dict is, by identity, in the metadata that accompanies the data, or --
for the metadata-less pieces produced by flatten -- in the metadata of the enclosing update() call.
"""
import random

from .. import aprogs, asyncrun, progs

PID = 'C04'
LEVEL = 'exploration'
RULE = ('async programs over every node type that can hold data past update() (buffer, delay, rate_limit, map_async, '
        'timed_window(_unique), partition +- timeout, partition_unique, sliding_window, zip, combine_latest, zip_latest, '
        'latest, slice, flatten) with slow and failing consumers; every element has its own counter; non-trivial = at '
        'least one trigger observed and at least one asynchronous consumer call with service time > 0 or a failure; '
        'distinct by hash(case)')
REQUIRED = ['triggers_observed', 'late_events_scanned', 'failed_elements_checked', 'buffered_elements_checked_at_quiescence']
ASSUMPTIONS = ['derivation is tracked by metadata identity (C10 checks that metadata follows the data)',
               'state kept by accumulate is not "derived data in flight"']
INCONCLUSIVE_BUDGET = 0.03

HOLDERS = ['buffer', 'delay', 'rate_limit', 'map_async', 'timed_window', 'timed_window_unique',
           'partition_timeout', 'latest']


def plan(tier):
    if tier == 'thorough':
        return {'shards': 16, 'timeout_s': 1700}
    return {'shards': 8, 'timeout_s': 280}


def n_cases(tier):
    return 12000 if tier == 'thorough' else 300


def one_case(rng, tier):
    if rng.random() < 0.08:
        # holders over None / falsy / string / nested-tuple elements (no injected failures here)
        g = aprogs.XAGen(rng, async_ops=HOLDERS, max_nodes=6)
        prog = g.program(min_async=1)
        for s in prog['nodes']:
            if s['op'] == 'sink' and rng.random() < 0.6:
                s['kind'] = rng.choice(['coro', 'future', 'tornado', 'awaitable'])
        return {'prog': prog, 'producers': g.producers(prog, max_total=16), 'awaiting': rng.random() < 0.7, 'exotic': True}
    g = aprogs.AGen(rng, async_ops=HOLDERS, max_nodes=7, fail_prob=0.15, p_async=0.5)
    prog = g.program(min_async=rng.choice([0, 1, 1, 2]))
    for s in prog['nodes']:
        if s['op'] == 'sink' and rng.random() < 0.6:
            s['kind'] = rng.choice(['coro', 'future', 'tornado', 'awaitable'])
    prods = g.producers(prog, max_total=16)
    return {'prog': prog, 'producers': prods, 'awaiting': rng.random() < 0.7}


def check_case(case, counters, sets):
    ar = asyncrun.run_async(case)
    if ar.stop in ('iter-cap', 'vt-cap', 'watchdog'):
        return ar, None
    prog = case['prog']
    specs = {s['id']: s for s in prog['nodes']}
    log = ar.log
    viols, seen = [], set()

    first_late = set()      # elements whose first post-signal event has been reported already

    def add(key, what, did=None):
        if did is not None:
            if did in first_late:
                return          # only the first late event of an element names the culprit
            first_late.add(did)
        if key not in seen:
            seen.add(key)
            viols.append({'key': key, 'what': what, 'case': case})

    def op_of(nid):
        return specs[nid]['op'] if nid in specs else '?'
    uid2dict = {}
    for i, md in ar.mds.items():
        for d in md:
            if 'ref' in d:
                uid2dict[d['ref'].uid] = id(d)
    triggered = {}          # id(dict) -> (log idx, vt, blame)
    failed = {}             # id(dict) -> where
    # map_async: k-th evaluation <-> k-th arrival
    ma_in = {}
    for e in log.ev:
        if e[2] == 'IN' and op_of(e[3]) == 'map_async':
            ma_in.setdefault(e[3], []).append(e)
    n_late = 0
    for e in log.ev:
        k = e[2]
        if k == 'REF' and e[4] == 'trigger':
            did = uid2dict.get(e[3])
            if did is not None and did not in triggered:
                triggered[did] = (e[0], e[1], e[6])
                counters['triggers_observed'] = counters.get('triggers_observed', 0) + 1
        elif k == 'IN':
            n_late += 1
            md = e[6] if isinstance(e[6], list) else []
            for d in md:
                if isinstance(d, dict) and id(d) in triggered:
                    t = triggered[id(d)]
                    who = e[4]
                    add('C04:late-emit@%s' % op_of(who),
                        'element %s: completion signal at t=%s (given in %s), but %s (%s) handed derived data %r to %s at t=%s'
                        % (d.get('id'), t[1], t[2], who, op_of(who), e[5], e[3], e[1]), id(d))
        elif k in ('START', 'END', 'FAILED'):
            n_late += 1
            cause, inherited = e[6]
            for did in cause:
                if did in triggered and triggered[did][0] < e[0]:
                    t = triggered[did]
                    if inherited == 'flatten':
                        add('C04:signal-before-consumer-end-of-metadata-less-flatten-piece',
                            'consumer %s %s %r at t=%s, signal was given at t=%s' % (e[3], k, e[4], e[1], t[1]), did)
                    elif inherited:
                        add('C04:signal-before-consumer-end-of-data-handed-on-without-its-metadata@%s' % inherited,
                            'consumer %s %s %r at t=%s, signal was given at t=%s; the data reached it without metadata: '
                            'a %s node handed it on without the metadata it had received'
                            % (e[3], k, e[4], e[1], t[1], inherited), did)
                    else:
                        add('C04:signal-before-consumer-%s@sink' % ('start' if k == 'START' else 'end'),
                            'element signalled complete at t=%s (in %s) but consumer %s %s %r at t=%s'
                            % (t[1], t[2], e[3], k, e[4], e[1]), did)
            if k == 'FAILED':
                for did in cause:
                    failed.setdefault(did, ('metadata-less-flatten-piece consumer %s' if inherited == 'flatten' else
                                            'data-handed-on-without-metadata-by-' + inherited + ' consumer %s' if inherited
                                            else 'consumer %s') % e[3])
        elif k == 'FN_FAILED':
            arr = ma_in.get(e[3], [])
            if e[5] < len(arr):
                md = arr[e[5]][6] if isinstance(arr[e[5]][6], list) else []
                for d in md:
                    if isinstance(d, dict):
                        failed.setdefault(id(d), 'map_async %s' % e[3])
        elif k == 'FN_START':
            arr = ma_in.get(e[3], [])
            if e[5] < len(arr):
                md = arr[e[5]][6] if isinstance(arr[e[5]][6], list) else []
                for d in md:
                    if isinstance(d, dict) and id(d) in triggered:
                        add('C04:signal-before-computation@map_async',
                            'element %s signalled complete at t=%s but map_async %s started computing on it at t=%s'
                            % (d.get('id'), triggered[id(d)][1], e[3], e[1]), id(d))
        elif k == 'FN_END':
            arr = ma_in.get(e[3], [])
            if e[5] < len(arr):
                md = arr[e[5]][6] if isinstance(arr[e[5]][6], list) else []
                for d in md:
                    if isinstance(d, dict) and id(d) in triggered and triggered[id(d)][0] < e[0]:
                        add('C04:signal-before-computation-end@map_async',
                            'element %s signalled complete at t=%s (in %s) but map_async %s finished computing on it at t=%s'
                            % (d.get('id'), triggered[id(d)][1], triggered[id(d)][2], e[3], e[1]), id(d))
    # an emit can also raise because the backpressure future it was handed belongs to an *earlier* batch that
    # failed (timed_window returns the emission in progress); only failures of data derived from the element
    # itself (FAILED / FN_FAILED above, attributed by metadata identity) count as "its processing raised"
    for did, where in failed.items():
        counters['failed_elements_checked'] = counters.get('failed_elements_checked', 0) + 1
        if did in triggered:
            add('C04:signal-for-failed-element@%s' % where.split()[0],
                'handling failed (%s) but the completion signal was given at t=%s in %s'
                % (where, triggered[did][1], triggered[did][2]))
    counters['late_events_scanned'] = counters.get('late_events_scanned', 0) + n_late
    counters['events_observed'] = counters.get('events_observed', 0) + len(log.ev)
    sets.setdefault('interleaving_signatures', set()).add(asyncrun.signature(log))
    for s in prog['nodes']:
        sets.setdefault('node_types_seen', set()).add(s['op'] + ('+timeout' if asyncrun.is_async_partition(s) else ''))
    ar.interesting = bool(triggered) and (bool(failed) or any(e[2] == 'END' and e[1] > 0 for e in log.ev))
    return ar, viols


def check_sync_holders(case, counters, sets):
    """Synchronous holders (partition, sliding_window, zip, combine_latest, collect with an explicit flush, feedback edges):
    at every quiescent point -- after each emit has returned -- no element that the reference semantics still has buffered
    in some node has had its completion signal.  (The run and the holder count are C05's synchronous machinery; only the
    safety half is judged here: the signal while buffered.)"""
    from .. import syncrun
    res = syncrun.run_case(case['prog'], case['inputs'], mode=case['mode'], with_refs=True)
    if res.hung:
        return None, None
    viols = []
    if res.emit_errors:
        return res, viols           # C01's business
    uid2d = {ref.uid: d for did, (j, ref, d) in res.refs.items()}
    seen = set()
    for i, snap in res.quiescent:
        for uid, (count, triggers, holders) in snap.items():
            counters['buffered_elements_checked_at_quiescence'] = counters.get('buffered_elements_checked_at_quiescence', 0) + (1 if holders else 0)
            if holders > 0 and triggers > 0 and uid not in seen:
                seen.add(uid)
                who = sorted(n.op for n in res.model.nodes.values() if any(m is uid2d[uid] for m in n.holds()))
                key = 'C04:signal-while-buffered@%s' % ('+'.join(who) or 'holder-it-has-left-since')
                if not any(v['key'] == key for v in viols):
                    viols.append({'key': key, 'what': 'after emit #%d: the completion signal of element %s has been given (count %d) while '
                                  'the reference semantics still has it buffered in %s' % (i, uid, count, who), 'case': case})
    for s_ in case['prog']['nodes']:
        sets.setdefault('node_types_seen', set()).add(s_['op'])
    return res, viols


def run_shard(seed, tier, shard, nshards):
    rng = random.Random('%s-%d-%d-%s' % (PID, seed, shard, tier))
    out = {'evaluations': 0, 'keys': [], 'violations': [], 'samples': [], 'counters': {},
           'sets': {}, 'inconclusive': []}
    for k in range(n_cases(tier) // 2):
        g = progs.Gen(rng, max_nodes=10)
        prog = g.program()
        inputs = g.inputs(prog, max_len=25)
        for it in inputs:
            it[2] = max(1, it[2])
        case = {'sync_holders': True, 'prog': prog, 'inputs': inputs, 'mode': 'async' if rng.random() < 0.5 else 'plain'}
        res, viols = check_sync_holders(case, out['counters'], out['sets'])
        out['evaluations'] += 1
        if viols is None:
            out['inconclusive'].append('sync case %d: blocking emit did not return' % k)
            continue
        out['violations'].extend(viols)
    for k in range(n_cases(tier)):
        case = one_case(rng, tier)
        ar, viols = check_case(case, out['counters'], out['sets'])
        out['evaluations'] += 1
        if viols is None:
            out['inconclusive'].append('case %d: %s' % (k, ar.stop))
            continue
        if ar.interesting:
            out['keys'].append(progs.prog_key(case, None))
        out['violations'].extend(viols)
        if len(out['samples']) < 2 and ar.interesting and len(ar.log.ev) > 80:
            out['samples'].append({'program': [' '.join('%s=%s' % kv for kv in s.items() if kv[1] not in (None, [], {})) for s in case['prog']['nodes']],
                                   'producers': case['producers'], 'awaiting': case['awaiting'],
                                   'ref_events': ['%.2f %s %s count=%s %s' % (e[1], e[3], e[4], e[5], e[6]) for e in ar.log.ev if e[2] == 'REF'][:30]})
    return out


def replay(case):
    if case.get('sync_holders'):
        return check_sync_holders(case, {}, {})[1] or []
    _, viols = check_case(case, {}, {})
    return viols or []
