"""Asynchronous executions under the virtual-time loop: builder for the
asynchronous node types, producers/consumers with scheduled completion
instants, bounded settle, and the local oracles shared by C02, C03, C04, C05,
C08, C10, C13 and C14.

A case is JSON:
  {'prog': {...},                      program spec (vf/progs.py + async ops below)
   'producers': [[[gap, entry, value, n_md], ...], ...],
   'awaiting': true|false}             producers await their emits or not
Async node specs: buffer{n} delay{interval} rate_limit{interval} latest
  map_async{f, parallelism, svc:[...], ret:'coro'|'future', fail:[call idx]}
  timed_window{interval} timed_window_unique{interval,key,keep}
  partition{n, timeout, key}
Sink specs: sink{kind:'sync'|'coro'|'future', svc:[...], fail:[call idx]}
"""
import asyncio
import hashlib

from . import funcs as F
from . import model as M
from . import recorder as R
from .probes import ProbeRef
from .progs import build_node
from .vloop import virtual_env

EPS = 1e-9
ASYNC_OPS = ('buffer', 'delay', 'rate_limit', 'map_async', 'timed_window', 'timed_window_unique', 'latest')
BATCHERS = ('timed_window', 'timed_window_unique')


def is_async_partition(spec):
    return spec['op'] == 'partition' and spec.get('timeout') is not None


class AResult:
    pass


class CaseTimeout(KeyboardInterrupt):
    """raised by SIGALRM inside a case that no longer returns to the event loop (a synchronous livelock)"""


def _alarm(signum, frame):
    import traceback
    raise CaseTimeout(' < '.join('%s:%d %s' % (f.filename.split('/')[-1], f.lineno, f.name) for f in reversed(traceback.extract_stack(frame)[-9:])))


class _Awaitable:
    """what an aiohttp request object, a dask Future or `agen.asend(x)` look like to a caller: awaitable, but neither an
    asyncio/tornado Future nor a coroutine object"""
    def __init__(self, coro):
        self._coro = coro

    def __await__(self):
        return self._coro.__await__()


class _FalsyAwaitable(_Awaitable):
    """an awaitable that is falsy until it has been awaited (a lazy result set with a __len__)"""

    def __len__(self):
        return 0


class Ctx:
    """consumer factories bound to one run"""

    def __init__(self, env, log):
        self.env = env
        self.log = log
        self.running = {}       # node id -> current number of running evaluations
        self.max_running = {}
        self.coros = []

    def _svc(self, spec, k):
        svc = spec.get('svc') or [0]
        return svc[k % len(svc)]

    def mk_sink(self, nid, spec):
        log, env = self.log, self.env
        kind = spec.get('kind', 'sync')
        fail = set(spec.get('fail', ()))
        state = {'k': 0}

        def cause():
            c = log.cause_stack[-1] if log.cause_stack else frozenset()
            last = log.ev[-1] if log.ev else None
            inherited = bool(last is not None and last[2] == 'IN' and last[3] == nid and not last[6])
            if inherited:       # the class of the node that handed the data on without the metadata it had received
                inherited = (log.strip_stack[-1] if log.strip_stack else None) or False
            return (c, inherited)

        if kind in ('sync', 'sync_block'):
            def sink(x):
                k = state['k']
                state['k'] += 1
                c = cause()
                log.add('CALLED', nid, x, k, c)
                log.add('START', nid, x, k, c)
                if kind == 'sync_block':
                    # a plain function that takes its time ON the loop thread (time.sleep, a computation): the clock moves
                    # on while no callback and no timer of the loop can run
                    env.loop._vt += self._svc(spec, k)
                if k in fail:
                    log.add('FAILED', nid, x, k, c)
                    raise F.InjectedFault((nid, k))
                log.add('END', nid, x, k, c)
                if spec.get('detach_at') == k:
                    # a one-shot consumer: it takes itself out of the pipeline from inside its own call, i.e. while its
                    # upstream is in the middle of delivering to its consumers
                    log.add('EDIT', nid, 'self-detach', k)
                    self.nodes[nid].destroy()
            return sink
        if kind in ('coro', 'awaitable', 'awaitable_falsy'):
            async def body(x, k, c):
                log.add('START', nid, x, k, c)
                d = self._svc(spec, k)
                if d > 0:
                    await asyncio.sleep(d)
                if k in fail:
                    log.add('FAILED', nid, x, k, c)
                    raise F.InjectedFault((nid, k))
                log.add('END', nid, x, k, c)

            def sink(x):
                k = state['k']
                state['k'] += 1
                c = cause()
                log.add('CALLED', nid, x, k, c)
                if kind == 'awaitable_falsy':
                    return _FalsyAwaitable(body(x, k, c))
                if kind == 'awaitable':
                    return _Awaitable(body(x, k, c))     # neither a Future nor a coroutine object: just __await__
                return body(x, k, c)
            return sink

        if kind == 'tornado':
            from tornado import gen as _gen

            @_gen.coroutine
            def tbody(x, k, c):
                log.add('START', nid, x, k, c)
                d = self._svc(spec, k)
                if d > 0:
                    yield _gen.sleep(d)
                if k in fail:
                    log.add('FAILED', nid, x, k, c)
                    raise F.InjectedFault((nid, k))
                log.add('END', nid, x, k, c)

            def sink(x):        # a tornado coroutine: runs up to its first yield when called, returns a Future
                k = state['k']
                state['k'] += 1
                c = cause()
                log.add('CALLED', nid, x, k, c)
                return tbody(x, k, c)
            return sink

        def sink(x):        # returns a Future completed by a timer
            k = state['k']
            state['k'] += 1
            c = cause()
            log.add('CALLED', nid, x, k, c)
            log.add('START', nid, x, k, c)
            fut = env.loop.create_future()
            d = self._svc(spec, k)

            def done():
                if k in fail:
                    log.add('FAILED', nid, x, k, c)
                    fut.set_exception(F.InjectedFault((nid, k)))
                else:
                    log.add('END', nid, x, k, c)
                    fut.set_result(None)
            if d > 0:
                env.loop.call_later(d, done)
            else:
                env.loop.call_soon(done)
            return fut
        return sink

    def mk_async_fn(self, nid, spec):
        log, env = self.log, self.env
        g = F.MAPS[spec.get('f', 'ident')]
        fail = set(spec.get('fail', ()))
        state = {'k': 0}
        self.running[nid] = 0
        self.max_running[nid] = 0

        def enter(x, k):
            self.running[nid] += 1
            self.max_running[nid] = max(self.max_running[nid], self.running[nid])
            log.add('FN_START', nid, x, k, self.running[nid])

        def leave(x, k, ok):
            self.running[nid] -= 1
            log.add('FN_END' if ok else 'FN_FAILED', nid, x, k)

        if spec.get('ret', 'coro') == 'coro':
            async def fn(x):
                k = state['k']
                state['k'] += 1
                enter(x, k)
                d = self._svc(spec, k)
                if d > 0:
                    await asyncio.sleep(d)
                if k in fail:
                    leave(x, k, False)
                    raise F.InjectedFault((nid, k))
                leave(x, k, True)
                return g(x)
            return fn

        fail_at_call = set(spec.get('fail_at_call', ()))

        def fn(x):
            k = state['k']
            state['k'] += 1
            if k in fail_at_call:
                # a plain function that hands back an awaitable, but checks its argument first: it raises when CALLED
                log.add('FN_FAILED', nid, x, k)
                raise F.InjectedFault((nid, k))
            enter(x, k)
            fut = env.loop.create_future()
            d = self._svc(spec, k)

            def done():
                if k in fail:
                    leave(x, k, False)
                    fut.set_exception(F.InjectedFault((nid, k)))
                else:
                    leave(x, k, True)
                    fut.set_result(g(x))
            if d > 0:
                env.loop.call_later(d, done)
            else:
                env.loop.call_soon(done)
            return fut
        return fn


LONG_FORMS = {86400.0: '1D', 90000.0: '25h', 5400.0: '90min'}


def _ival(spec):
    """the interval of a time-based node, as a number or (ival_str) in the string form the API also accepts"""
    v = spec['interval']
    if spec.get('ival_np'):
        import numpy as np
        return np.dtype(spec['ival_np']).type(v)           # a numpy scalar, e.g. the result of some array computation
    if spec.get('ival_str'):
        if v in LONG_FORMS:
            return LONG_FORMS[v]
        ms = int(round(v * 1000))
        return '%ds' % (ms // 1000) if ms % 1000 == 0 else '%dms' % ms
    return v


def build_async(prog, log, ctx):
    """real nodes for a program that may contain asynchronous ops"""
    from streamz import Stream
    from .progs import _realkey
    S = {}
    calls = []
    for spec in prog['nodes']:
        op, nid = spec['op'], spec['id']
        ups = [S[u] for u in spec.get('ups', [])]
        if op == 'buffer':
            n = ups[0].buffer(spec['n'])
        elif op == 'delay':
            n = ups[0].delay(_ival(spec))
        elif op == 'rate_limit':
            n = ups[0].rate_limit(_ival(spec))
        elif op == 'latest':
            n = ups[0].latest()
        elif op == 'map_async':
            n = ups[0].map_async(ctx.mk_async_fn(nid, spec), parallelism=spec.get('parallelism', 1))
        elif op == 'timed_window':
            n = ups[0].timed_window(_ival(spec))
        elif op == 'timed_window_unique':
            n = ups[0].timed_window_unique(_ival(spec), key=_realkey(spec.get('key', 'ident')),
                                           keep=spec.get('keep', 'first'))
        elif op == 'sink':
            n = ups[0].sink(ctx.mk_sink(nid, spec))
        else:
            n = build_node(spec, S, calls, None, {'asynchronous': True})
        log.name(n, nid)
        S[nid] = n
    ctx.nodes = S
    for u, v in prog.get('extra_edges', []):
        S[u].connect(S[v])
    return S


def mk_md(log, i, nmd, io):
    md = []
    ref = None
    for j in range(nmd):
        d = {'id': '%d.%d' % (i, j)}
        if j == 0:
            ref = ProbeRef('%d.%d' % (i, j), log, io)
            d['ref'] = ref
        md.append(d)
    return md, ref


def _is_empty_batch(v):
    return isinstance(v, (list, tuple)) and len(v) == 0


def substantive(e):
    k = e[2]
    if k in ('OUT', 'OUT_RET', 'CALLED', 'START', 'END', 'PENDING', 'ACCEPTED'):
        return not _is_empty_batch(e[4])
    if k == 'IN':
        return not _is_empty_batch(e[5])
    return True


def _deep_tuple(v):
    return tuple(_deep_tuple(y) for y in v) if isinstance(v, (list, tuple)) else v


def run_async(case, max_steps=400):
    prog = case['prog']
    ar = AResult()
    ar.case = case
    intervals = [s.get('interval', 0) or 0 for s in prog['nodes']] + \
                [s.get('timeout', 0) or 0 for s in prog['nodes']]
    svcs = [d for s in prog['nodes'] for d in (s.get('svc') or [0])]
    gaps = [it[0] for p in case['producers'] for it in p]
    step = 2 * max(intervals + [0]) + max(svcs + [0]) + max(gaps + [0]) + 1.0
    with virtual_env(case.get('t0', 0.0)) as env:
        with R.recording(env.now) as log:
            ar.log = log
            if case.get('_event_cap'):
                log.cap = case['_event_cap']        # tiny pipelines: a livelock shows long before the general cap
            ctx = Ctx(env, log)
            ar.ctx = ctx
            S = build_async(prog, log, ctx)
            ar.nodes = S
            ar.mds = {}
            ar.dict_entry = {}
            ar.refs = {}
            ar.entries = {}
            ar.emit_exc = {}
            ar.pending_emits = {}
            counter = {'i': 0}
            awaiting = case.get('awaiting', True)

            def emit_done(i, e, exc):
                ar.pending_emits.pop(i, None)
                if exc is not None:
                    ar.emit_exc[i] = exc
                log.add('EMIT_DONE', e, i, exc)

            ar.producer_of = {}

            async def producer(items, pidx):
                for gap, e, v, nmd in items:
                    if gap > 0:
                        await asyncio.sleep(gap)
                    elif gap < 0:
                        # -k: the same virtual instant, but k turns of the event loop later
                        for _ in range(int(-gap)):
                            await asyncio.sleep(0)
                    if e == '!call':
                        # a lifecycle call placed in the producer's timeline: v = [node id, 'start' | 'stop']
                        log.add('EDIT', 'call', v[0], v[1])
                        getattr(S[v[0]], v[1])()
                        continue
                    if e == '!connect':
                        log.add('EDIT', 'connect', v[0], v[1])
                        S[v[0]].connect(S[v[1]])
                        continue
                    if e == '!disconnect':
                        # a graph edit placed in the producer's timeline: v = [upstream id, downstream id]
                        log.add('EDIT', 'disconnect', v[0], v[1])
                        S[v[0]].disconnect(S[v[1]])
                        continue
                    i = counter['i']
                    counter['i'] += 1
                    x = _deep_tuple(v)
                    md, ref = mk_md(log, i, nmd, env.io)
                    ar.mds[i] = md
                    if ref is not None:
                        ar.refs[i] = ref
                    ar.entries[i] = (e, x)
                    ar.producer_of[i] = pidx
                    for d in md:
                        ar.dict_entry[id(d)] = i
                    log.add('ENTRY', e, i, x)
                    ar.pending_emits[i] = e
                    try:
                        r = S[e].emit(x, metadata=md if md else None)
                    except Exception as ex:
                        emit_done(i, e, ex)
                        continue
                    if awaiting:
                        try:
                            await r
                        except Exception as ex:
                            emit_done(i, e, ex)
                        else:
                            emit_done(i, e, None)
                    else:
                        def cb(f, i=i, e=e):
                            emit_done(i, e, None if f.cancelled() else f.exception())
                        r.add_done_callback(cb)

            tasks = [env.loop.create_task(producer(p, pi)) for pi, p in enumerate(case['producers'])]
            ar.stop = None
            quiet = 0
            budget = 150000             # loop iterations per case (a livelock must not eat the shard's time)
            import signal
            import threading
            use_alarm = threading.current_thread() is threading.main_thread()
            if use_alarm:
                old_handler = signal.signal(signal.SIGALRM, _alarm)
                signal.alarm(case.get('_watchdog_s', 20))
            for _ in range(max_steps):
                n0 = len(log.ev)
                it0 = env.loop.iters
                try:
                    reason = env.loop.drive(until_vt=env.loop.time() + step, max_iters=max(1, budget))
                except CaseTimeout as ex:
                    ar.stop = 'watchdog'
                    ar.stop_detail = str(ex)
                    break
                except R.LogFull:
                    ar.stop = 'iter-cap'
                    break
                budget -= env.loop.iters - it0
                if reason == 'idle':
                    ar.stop = 'idle'
                    break
                if reason == 'iter-cap' or budget <= 0 or len(log.ev) > 60000:
                    ar.stop = 'iter-cap'
                    break
                if any(substantive(e) for e in log.ev[n0:]):
                    quiet = 0
                else:
                    quiet += 1
                    if quiet >= 2:
                        ar.stop = 'quiescent'
                        break
            else:
                ar.stop = 'vt-cap'
            if use_alarm:
                signal.alarm(0)
                signal.signal(signal.SIGALRM, old_handler)
            ar.producers_done = all(t.done() for t in tasks)
            for t in tasks:
                if t.done() and not t.cancelled() and t.exception() is not None:
                    ar.emit_exc.setdefault(-1, t.exception())
            ar.errors = list(env.errors)
            ar.end_vt = env.loop.time()
            ar.spin_jumps = env.loop.spin_jumps
            ar.max_running = dict(ctx.max_running)
            ar.final_counts = {i: (r.count, r.triggers) for i, r in ar.refs.items()}
    return ar


# ---------------------------------------------------------------------------
# views over the log
# ---------------------------------------------------------------------------

def by_node(log):
    ins, outs = {}, {}
    for e in log.ev:
        if e[2] == 'IN':
            ins.setdefault(e[3], []).append(e)      # (idx, vt, 'IN', me, who, x, md, cause)
        elif e[2] == 'OUT':
            outs.setdefault(e[3], []).append(e)     # (idx, vt, 'OUT', me, x, md)
    return ins, outs


def _v(x):
    if isinstance(x, (list, tuple)):
        return tuple(_v(y) for y in x)
    return x


def _mdids(md):
    if md is None:
        return []
    if not isinstance(md, list):
        return ['?shape']
    return [id(d) if isinstance(d, dict) else '?shape' for d in md]


def signature(log):
    h = hashlib.sha1()
    for e in log.ev:
        if e[2] in ('IN', 'OUT', 'CALLED', 'START', 'END', 'ENTRY', 'EMIT_DONE', 'FN_START', 'FN_END'):
            h.update(('%s:%s;' % (e[2], e[3])).encode())
    return h.hexdigest()[:16]


def _single_path(specs, nid, extra_edges=None):
    """True if there is exactly one route from a source to this node (every node on the way has a single upstream)"""
    extra = extra_edges or []
    seen = set()
    while nid in specs and nid not in seen:
        seen.add(nid)
        ups = list(specs[nid].get('ups', [])) + [u for u, v in extra if v == nid]
        if specs[nid]['op'] == 'source':
            return not ups
        if len(ups) != 1:
            return False
        nid = ups[0]
    return False


def local_checks(case, ar, check_md=True):
    """Local + edge oracle of DESIGN 1.4 on the recorded history.
    Returns (violations [(clause, op, detail)], counters {})."""
    prog = case['prog']
    specs = {s['id']: s for s in prog['nodes']}
    ins, outs = by_node(ar.log)
    V, C = [], {}

    def bump(k, n=1):
        C[k] = C.get(k, 0) + n

    def bad(clause, nid, detail):
        V.append((clause, specs[nid]['op'] if nid in specs else nid, {'node': nid, **detail}))

    for spec in prog['nodes']:
        nid, op = spec['id'], spec['op']
        I, O = ins.get(nid, []), outs.get(nid, [])
        if op in ('source',):
            continue
        if op == 'sink' or op == 'sink_flush':
            called = [e for e in ar.log.ev if e[2] == 'CALLED' and e[3] == nid]
            started = [e for e in ar.log.ev if e[2] == 'START' and e[3] == nid]
            bump('sink_sequences_checked')
            if [_v(e[4]) for e in called] != [_v(e[5]) for e in I]:
                bad('sink-calls!=deliveries', nid, {'delivered': [_v(e[5]) for e in I][:30],
                                                     'called': [_v(e[4]) for e in called][:30]})
            if len(started) != len(called):
                bad('sink-awaitable-not-awaited-exactly-once', nid,
                    {'called': len(called), 'started': len(started)})
            elif not _single_path(specs, nid, prog.get('extra_edges')):
                pass        # deliveries that reach the consumer by different routes within one walk may legitimately be started in another order
            elif [e[5] for e in started] != sorted(e[5] for e in started):
                # what a coroutine-style consumer sees is the order in which its bodies begin to run: the awaitables the
                # pipeline collected must be started in the order of the deliveries
                bump('sink_body_order_checked')
                bad('consumer-bodies-begin-out-of-delivery-order', nid,
                    {'kind': spec.get('kind'), 'delivered': [_v(e[4]) for e in called][:20], 'bodies_began_with': [_v(e[4]) for e in started][:20]})
            else:
                bump('sink_body_order_checked')
            continue
        if op in ('buffer', 'delay', 'rate_limit'):
            bump('identity_nodes_checked')
            if [_v(e[5]) for e in I] != [_v(e[4]) for e in O]:
                bad('lossless-order', nid, {'in': [_v(e[5]) for e in I][:40], 'out': [_v(e[4]) for e in O][:40]})
            elif check_md and [_mdids(e[6]) for e in I] != [_mdids(e[5]) for e in O]:
                bad('metadata', nid, {'in': [len(_mdids(e[6])) for e in I][:40]})
            continue
        if op == 'map_async':
            bump('map_async_checked')
            g = F.MAPS[spec.get('f', 'ident')]
            fail = set(spec.get('fail', ()))
            exp = [(_v(g(e[5])), _mdids(e[6])) for k, e in enumerate(I) if k not in fail]
            got = [(_v(e[4]), _mdids(e[5])) for e in O]
            # which producers do the arrivals come from?
            prods = set()
            for e in I:
                for d in (e[6] or []):
                    i = ar.dict_entry.get(id(d)) if isinstance(d, dict) else None
                    prods.add(ar.producer_of.get(i))
            if len(prods) <= 1:
                bump('map_async_single_producer_order_checked')
                if [a for a, _ in exp] != [a for a, _ in got]:
                    bad('map_async-order', nid, {'expected': [a for a, _ in exp][:40], 'out': [a for a, _ in got][:40]})
                elif check_md and exp != got:
                    bad('metadata', nid, {})
            else:
                # several producers race into the node: exactly once, and per-producer order
                key = lambda p: (repr(p[0]), tuple(map(str, p[1])))
                if sorted(exp, key=key) != sorted(got, key=key):
                    bad('map_async-exactly-once', nid, {'expected': [a for a, _ in exp][:40], 'out': [a for a, _ in got][:40]})
                else:
                    for p in prods:
                        def mine(md):
                            return any(ar.producer_of.get(ar.dict_entry.get(m)) == p for m in md)
                        a = [x for x in exp if mine(x[1])]
                        b = [x for x in got if mine(x[1])]
                        if a != b:
                            bad('map_async-order', nid, {'producer': p, 'expected': [v for v, _ in a][:40], 'out': [v for v, _ in b][:40]})
                            break
            continue
        if op in BATCHERS:
            bump('batchers_checked')
            # arrivals between consecutive emissions form the batch
            evs = sorted(I + O, key=lambda e: e[0])
            cur = []
            for e in evs:
                if e[2] == 'IN':
                    cur.append(e)
                else:
                    if op == 'timed_window':
                        exp_v = [_v(a[5]) for a in cur]
                        exp_md = [m for a in cur for m in _mdids(a[6])]
                    else:
                        keep = spec.get('keep', 'first')
                        d = {}
                        for a in cur:
                            k = M._key(spec, a[5], default_ident=True)
                            if keep == 'last':
                                d.pop(k, None)
                                d[k] = a
                            elif k not in d:
                                d[k] = a
                        exp_v = [_v(a[5]) for a in d.values()]
                        exp_md = [m for a in d.values() for m in _mdids(a[6])]
                    if list(_v(e[4])) != exp_v:
                        bad('batch-content', nid, {'arrivals_since_last_batch': exp_v[:30], 'batch': list(_v(e[4]))[:30],
                                                   'at': e[1]})
                    elif check_md and _mdids(e[5]) != exp_md:
                        bad('metadata', nid, {'batch': list(_v(e[4]))[:30]})
                    cur = []
            if cur:
                bad('elements-never-emitted', nid, {'left': [_v(a[5]) for a in cur][:30]})
            continue
        if is_async_partition(spec):
            bump('timeout_partitions_checked')
            _check_timeout_partition(spec, I, O, bad, check_md, ar)
            continue
        if op == 'latest':
            # which elements come out is C14's business; that each comes out with the metadata it arrived with is checked here
            if check_md:
                arr = [(_v(e[5]), _mdids(e[6])) for e in I]
                j = 0
                for e in O:
                    want = (_v(e[4]), _mdids(e[5]))
                    k = j
                    while k < len(arr) and arr[k] != want:
                        k += 1
                    bump('latest_outputs_matched_with_their_arrival')
                    if k == len(arr):
                        if any(a[0] == want[0] for a in arr[j:]):
                            bad('metadata', nid, {'delivered': want[0], 'with_metadata_of_n_dicts': len(want[1]),
                                                  'arrivals_of_that_value_carried': [len(a[1]) for a in arr[j:] if a[0] == want[0]][:6]})
                        break
                    j = k + 1
            continue
        # synchronous op: reference node fed with the observed arrivals
        bump('sync_nodes_checked')
        ups = list(spec.get('ups', [])) + [u for u, v in prog.get('extra_edges', []) if v == nid]
        mn, mups = M.standalone(spec, len(ups))
        try:
            for e in I:
                mn.update(e[5], mups[ups.index(e[4])], e[6] if isinstance(e[6], list) else [])
        except Exception as ex:      # the reference node cannot digest what arrived (malformed upstream output)
            bad('reference-node-rejected-input', nid, {'error': repr(ex)})
            continue
        exp = [(_v(x), [id(d) for d in md]) for x, md in mn.out]
        got = [(_v(e[4]), _mdids(e[5])) for e in O]
        if [a for a, _ in exp] != [a for a, _ in got]:
            bad('node-output', nid, {'expected': [a for a, _ in exp][:30], 'out': [a for a, _ in got][:30]})
        elif check_md and exp != got:
            bad('metadata', nid, {})
    # edges
    edges = [(u, s['id']) for s in prog['nodes'] for u in s.get('ups', [])]
    edges += [tuple(e) for e in prog.get('extra_edges', [])]
    edits = [e for e in ar.log.ev if e[2] == 'EDIT' and e[3] in ('connect', 'disconnect')]
    for u, v in edges:
        bump('edges_checked')
        sent = [e for e in outs.get(u, [])]
        mine = [e for e in edits if e[4] == u and e[5] == v]
        if mine:
            # the edge was cut (and perhaps restored) during the run: only what was emitted while it existed travels over it
            def connected_at(idx):
                state = True
                for e in mine:
                    if e[0] < idx:
                        state = e[3] == 'connect'
                return state
            sent = [e for e in sent if connected_at(e[0])]
        got = [e for e in ins.get(v, []) if e[4] == u]
        sv = specs[v]
        a = [_v(e[4]) for e in sent]
        b = [_v(e[5]) for e in got]
        if sv['op'] == 'slice' and sv.get('end') is not None:
            a = a[:len(b)]
        if a != b:
            bad('edge-delivery', v, {'edge': [u, v], 'sent': a[:30], 'got': b[:30]})
    return V, C


def loop_blocks(ar):
    """[(t0, t1)] during which a consumer kept the loop thread busy (kind sync_block): no timer could fire"""
    out, open_ = [], {}
    for e in ar.log.ev:
        if e[2] == 'START':
            open_[(e[3], e[5])] = e[1]
        elif e[2] in ('END', 'FAILED') and (e[3], e[5]) in open_:
            t0 = open_.pop((e[3], e[5]))
            if e[1] > t0:
                kinds = {s['id']: s.get('kind') for s in ar.case['prog']['nodes']}
                if kinds.get(e[3]) == 'sync_block':
                    out.append((t0, e[1]))
    return out


def _due_or_when_loop_free(expected, blocks):
    """the instants at which a timer due at `expected` may fire: then, or -- if the loop is busy then -- when it is free again"""
    ok = [expected]
    t = expected
    for b0, b1 in sorted(blocks):
        if b0 <= t + 1e-9 and t < b1:
            t = b1
            ok.append(t)
    return ok


def _check_timeout_partition(spec, I, O, bad, check_md, ar):
    nid = spec['id']
    n, T = spec['n'], spec['timeout']
    blocks = loop_blocks(ar)
    per_key_in, per_key_out = {}, {}
    for e in I:
        per_key_in.setdefault(M._key(spec, e[5]), []).append(e)
    for e in O:
        b = e[4]
        if len(b) == 0:
            bad('empty-partition', nid, {'at': e[1]})
            continue
        ks = {M._key(spec, x) for x in b}
        if len(ks) != 1:
            bad('mixed-keys', nid, {'batch': _v(b)})
            continue
        per_key_out.setdefault(ks.pop(), []).append(e)
    for k in set(per_key_in) | set(per_key_out):
        arr = per_key_in.get(k, [])
        bs = per_key_out.get(k, [])
        flat = [x for e in bs for x in e[4]]
        if [_v(a[5]) for a in arr] != [_v(x) for x in flat]:
            bad('partition-conservation', nid, {'key': k, 'arrivals': [_v(a[5]) for a in arr][:30],
                                                'batches': [_v(e[4]) for e in bs][:30]})
            continue
        pos = 0
        for e in bs:
            members = arr[pos:pos + len(e[4])]
            pos += len(e[4])
            if len(e[4]) > n:
                bad('partition-too-long', nid, {'batch': _v(e[4]), 'n': n})
            elif len(e[4]) == n:
                # size flush: at the instant (and log position) of its last member
                if abs(e[1] - members[-1][1]) > EPS:
                    bad('size-flush-late', nid, {'batch': _v(e[4]), 'filled_at': members[-1][1], 'emitted_at': e[1]})
            else:
                # partial: exactly one timeout after its first member (or, if a consumer keeps the loop thread busy at that
                # moment, as soon as the loop is free again)
                if not any(abs(e[1] - t_ok) <= 1e-6 for t_ok in _due_or_when_loop_free(members[0][1] + T, blocks)):
                    bad('partial-partition-at-wrong-time', nid,
                        {'batch': _v(e[4]), 'first_member_at': members[0][1], 'timeout': T, 'emitted_at': e[1]})
            if check_md and _mdids(e[5]) != [m for a in members for m in _mdids(a[6])]:
                bad('metadata', nid, {'batch': _v(e[4])})


# ---------------------------------------------------------------------------
# C05, asynchronous family: counters at the bounded settle
# ---------------------------------------------------------------------------

def expected_holders(case, ar):
    """{id(dict): count} held legitimately once everything has settled, and the set of nodes contributing"""
    prog = case['prog']
    ins, outs = by_node(ar.log)
    hold, by = {}, {}
    for spec in prog['nodes']:
        nid, op = spec['id'], spec['op']
        I = ins.get(nid, [])
        if op in ('source', 'sink') or op in ASYNC_OPS and op != 'latest' or is_async_partition(spec):
            continue
        if op == 'latest':
            continue        # a lossy node: what it delivered or dropped has left the pipeline
        ups = list(spec.get('ups', []))
        mn, mups = M.standalone(spec, len(ups))
        try:
            for e in I:
                mn.update(e[5], mups[ups.index(e[4])], e[6] if isinstance(e[6], list) else [])
        except Exception:
            continue
        for d in mn.holds():
            hold[id(d)] = hold.get(id(d), 0) + 1
            by.setdefault(id(d), set()).add(op)
    return hold, by


def check_c05(case, counters, sets):
    ar = run_async(case)
    if ar.stop in ('iter-cap', 'vt-cap', 'watchdog'):
        return None, []
    log = ar.log
    viols, seen = [], set()

    def add(key, what):
        if key not in seen:
            seen.add(key)
            viols.append({'key': key, 'what': what, 'case': case})
    # elements whose handling failed are excluded (C04/C16 say they must never signal)
    failed = set()
    specs = {s['id']: s for s in case['prog']['nodes']}
    ma_in = {}
    for e in log.ev:
        if e[2] == 'IN' and specs.get(e[3], {}).get('op') == 'map_async':
            ma_in.setdefault(e[3], []).append(e)
    for e in log.ev:
        if e[2] == 'FAILED':
            failed.update(e[6][0])
        elif e[2] == 'FN_FAILED':
            arr = ma_in.get(e[3], [])
            if e[5] < len(arr) and isinstance(arr[e[5]][6], list):
                failed.update(id(d) for d in arr[e[5]][6])
    for i in ar.emit_exc:
        failed.update(id(d) for d in ar.mds.get(i, []))
    if ar.pending_emits or not ar.producers_done:
        return None, []          # not quiescent: C03's business
    hold, by = expected_holders(case, ar)
    n_cmp = n_held = 0
    for i, ref in ar.refs.items():
        d = ar.mds[i][0]
        if id(d) in failed:
            continue
        e_node = ar.entries[i][0]
        exp = hold.get(id(d), 0)
        n_cmp += 1
        n_held += 1 if exp else 0

        def blame():
            net = {}
            for ev in log.ev:
                if ev[2] == 'REF' and ev[3] == ref.uid and ev[4] in ('retain', 'release'):
                    cls = str(ev[6]).split('.')[0]
                    net[cls] = net.get(cls, 0) + (ev[7] if ev[4] == 'retain' else -ev[7])
            return {k: v for k, v in net.items() if v}
        if ref.count != exp:
            b = blame()
            modelled = {}
            for op_ in by.get(id(d), set()):
                modelled[op_] = modelled.get(op_, 0) + 1
            cls = sorted(c for c in set(b) | set(modelled)
                         if (c in b) != (c in modelled) or (c in b and c not in ('latest',) and False)) or sorted(b)
            add('C05:balance@' + '+'.join(cls),
                'after settle: counter %s is %d, reference semantics has %d holder(s) %s; net retains by class %s'
                % (ref.uid, ref.count, exp, sorted(by.get(id(d), [])), b))
        elif exp == 0 and ref.triggers == 0 and ref.max_count > 0:
            add('C05:no-signal-at-zero', 'counter %s is 0 with no holder left but no completion signal was given' % ref.uid)
        elif exp > 0 and ref.triggers > 0:
            add('C05:signal-while-held', 'counter %s signalled while %d holder(s) remain' % (ref.uid, exp))
        if ref.negative:
            add('C05:negative@%s' % ref.negative[0].split('.')[0], 'counter %s became negative in %s' % (ref.uid, ref.negative[0]))
        if ref.retain_after_trigger:
            add('C05:rise-after-zero@%s' % ref.retain_after_trigger[0].split('.')[0],
                'counter %s retained again after the completion signal, by %s' % (ref.uid, ref.retain_after_trigger[0]))
    counters['counter_vs_holders_comparisons'] = counters.get('counter_vs_holders_comparisons', 0) + n_cmp
    counters['counters_expected_zero'] = counters.get('counters_expected_zero', 0) + (n_cmp - n_held)
    counters['counters_expected_held'] = counters.get('counters_expected_held', 0) + n_held
    counters['async_runs_settled'] = counters.get('async_runs_settled', 0) + 1
    if any(e[2] == 'EDIT' and e[3] == 'call' for e in log.ev):
        counters['async_runs_with_map_async_stopped_or_restarted'] = counters.get('async_runs_with_map_async_stopped_or_restarted', 0) + 1
    counters['ref_events_observed'] = counters.get('ref_events_observed', 0) + sum(1 for e in log.ev if e[2] == 'REF')
    for s in case['prog']['nodes']:
        sets.setdefault('node_types_seen', set()).add(s['op'] + ('+timeout' if is_async_partition(s) else ''))
    sets.setdefault('interleaving_signatures', set()).add(signature(log))
    ar.n_cmp, ar.n_held = n_cmp, max(n_held, 1 if n_cmp else 0)
    ar.quiescent = [(len(ar.refs), {r.uid: (r.count, r.triggers, hold.get(id(ar.mds[i][0]), 0)) for i, r in ar.refs.items()})]
    ar.calls = True
    return ar, viols
