#!/venv/bin/python
"""Regenerates MANIFEST.json from the table below (keeps it valid at all times)."""
import json
import os

HERE = os.path.dirname(os.path.dirname(os.path.abspath(__file__)))

ENGINES = [
    {'name': 'E1 virtual-time loop', 'path': 'vf/vloop.py', 'kind_free_text': 'virtual-time asyncio loop running the real tornado/streamz code; schedule control'},
    {'name': 'E2 recorder', 'path': 'vf/recorder.py', 'kind_free_text': 'event recorder wrapped around Stream.update/_emit from outside the repository'},
    {'name': 'E3 probes', 'path': 'vf/probes.py', 'kind_free_text': 'instrumented RefCounter (real arithmetic, observed), recording consumers'},
    {'name': 'E4 reference interpreter', 'path': 'vf/model.py', 'kind_free_text': 'executable list-level model of the node catalogue used as oracle over recorded histories'},
    {'name': 'E5b async runner', 'path': 'vf/asyncrun.py', 'kind_free_text': 'async case runner (producers, consumers, bounded settle) and local/edge oracles'},
    {'name': 'E7 in-memory Kafka', 'path': 'vf/kafka_fake.py', 'kind_free_text': 'stand-in for the confluent_kafka client API with a broker journal surviving restarts'},
    {'name': 'E6 dataframe differential engine', 'path': 'vf/dfengine.py', 'kind_free_text': 'table/split generators, real streaming-dataframe pipeline builder, pandas oracles'},
    {'name': 'E5 program generator', 'path': 'vf/progs.py', 'kind_free_text': 'seeded generator of pipeline programs and input interleavings'},
]

# property id -> (category, technique, text, note, design_ref)
CHECKS = {}

NOT_YET = 'monitor not built yet in this revision (see DESIGN.md section 2 for the planned monitor)'


def add(pid, category, technique, text, note, ref):
    CHECKS[pid] = (category, technique, text, note, ref)


add('C01', 'exploration', 'runtime monitoring: recorded node-boundary history vs executable reference model',
    'Thousands of generated synchronous programs over the whole node catalogue (branching, joining, feedback, boundary '
    'parameters) and input interleavings are run on the real code with every Stream.update/_emit recorded; an independent '
    'reference interpreter decides every node output, every sink sequence, the global sink-call order and every edge. '
    'Held-on-K-executions assurance, not a proof.',
    'Trusts the reference interpreter (DESIGN.md Appendix A) as the documented meaning; user functions pure/total; '
    'zip maxsize never reached.', 'DESIGN.md#C01')

add('C10', 'exploration', 'runtime monitoring: recorded metadata at every node vs reference model (object identity)',
    'Same executions as C01 with 0/1/2 fresh metadata dicts per input; at every node the metadata of every output is '
    'compared, by identity and order, with what the reference interpreter prescribes; flat-list-of-dicts shape asserted '
    'everywhere. Asynchronous nodes are covered by the async local monitors.',
    'Trusts the reference interpreter for the documented placement of metadata.', 'DESIGN.md#C10')
add('C05', 'exploration', 'runtime monitoring: instrumented RefCounter + holder multiset of the reference model at quiescent points',
    'Every input carries an observed RefCounter; after every synchronous emit (and after the bounded settle of async runs) '
    'each count is compared with the number of legitimate holders computed by the reference interpreter; signal given iff '
    'no holder; never negative; never rising after zero. Async runs also stop / restart map_async nodes from outside while elements '
    'are under way; a real-thread family (child process) feeds and flushes a collect() on a blocking pipeline from the user thread.',
    'Legitimate holders are those of DESIGN.md Appendix A; counters attached only where the entry stream has a child.',
    'DESIGN.md#C05')
add('C16', 'fault_enumeration', 'runtime monitoring with fault injection: every single user-function invocation fails in its own run',
    'For small generated programs every invocation of every user function (incl. key and sink functions) is failed in a '
    'separate run (exhaustive over single faults) plus random multi-fault sets, in plain, loop-thread (sync()) and '
    'asynchronous modes; oracle: identity of the exception at the caller, state of the failing node vs reference node on '
    'the non-failing inputs, no completion signal for failed elements; bystander nodes keep their state (zip_latest keeps its '
    'waiting elements); a falsy exception class; a fault-free run that raises is a verdict.',
    'Directly connected nodes only; reference node semantics from Appendix A.', 'DESIGN.md#C16')

add('C02', 'exploration', 'runtime monitoring on a virtual-time event loop: local per-node oracle + edge oracle over the recorded history',
    'Generated pipelines with the lossless asynchronous nodes run on a virtual-time asyncio loop (the real tornado/streamz '
    'code, unmodified) with producers and consumers whose arrival/completion instants are drawn to force coincidences and '
    'out-of-order completions; consumers are plain functions, native coroutines and Future-returning functions. Every '
    'node output is checked against its documented meaning on the inputs it actually received, every edge delivers all, '
    'every sink awaitable is awaited exactly once; loop-level exceptions are violations.',
    'Schedules are those reachable by varying arrival/completion instants under asyncio FIFO discipline; virtual clock.',
    'DESIGN.md#C02')

add('C03', 'exploration', 'runtime monitoring on a virtual-time loop + real threads: event-order oracle over emit/consumer history and online bound counters',
    'Four families: direct pipelines with one awaiting producer (silence between emit completion and the next emit), '
    'per-element pipelines with 1-3 producers (consumer END before emit completion, attributed by metadata identity), '
    'bounds of buffer/map_async/zip evaluated after every event for n in {1,2,3,5}, and a threaded family (background '
    'loop, 1-4 caller threads, verdict on event order). Idle/quiescent loop with a pending emit is a definite deadlock.',
    'Bounds per the mechanism (buffer n+1, map_async n+1, zip n with one awaiting producer per input); liveness restated '
    'as bounded progress in virtual time.', 'DESIGN.md#C03')
add('C04', 'exploration', 'runtime monitoring: instrumented RefCounter trigger instants vs every later event on derived data',
    'Async programs over every data-holding node with slow and failing consumers; for each element the first event on '
    'derived data after its completion signal (late delivery, consumer start/end, computation) names the culprit node; '
    'failed elements must never signal. The recorder names the node that handed data on without the metadata it had received; a '
    'synchronous family (collect, feedback edges, partition ...) checks that no signal is given while the reference semantics '
    'still has the element buffered.',
    'Derivation tracked by metadata identity plus call-stack inheritance for metadata-less flatten pieces.', 'DESIGN.md#C04')

add('C08', 'exploration', 'runtime monitoring on a virtual-time loop: conservation/order/timer/deadline oracle over the node history',
    'Timed nodes run under a virtual clock with arrivals placed on the same grid as the ticks (coincidences), bursts and '
    'slow consumers; every arrival must be in exactly one batch, batches in arrival order, partitions <= n and never '
    'empty, full partitions at the instant of their last member, partial ones exactly one timeout after their first, and '
    'every element emitted within interval + independently measured blocked time.',
    'Coincident timers may fire in either order (both accepted); blocked time measured from consumer END events.',
    'DESIGN.md#C08')
add('C13', 'exploration', 'runtime monitoring on a virtual-time loop: spacing/order/no-delay oracle over delivery timestamps',
    'rate_limit/delay chains with 1-4 producers (awaiting or not), bursts and idle gaps: consecutive emissions >= interval '
    'apart, arrival order and count preserved after the bounded settle, idle arrivals emitted at their arrival instant.',
    'Virtual clock shared by streamz.core.time, tornado and asyncio.', 'DESIGN.md#C13')
add('C14', 'exploration', 'runtime monitoring on a virtual-time loop: subsequence + newest-delivered oracle',
    'latest in front of slow consumers with arrivals while idle / busy / several per busy period / same loop turn; what is '
    'delivered must be an in-order duplicate-free subsequence (elements identified by metadata identity) and, at loop '
    'quiescence after input stops, the newest arrival has been delivered.',
    '"Eventually" is decided as bounded progress: at quiescence of the virtual-time loop.', 'DESIGN.md#C14')

add('C15', 'exploration', 'runtime monitoring: link-symmetry invariant after every edit + per-emit delivery history vs reference interpreter with editable edge set',
    'Random histories of connect/disconnect/destroy/drop-reference interleaved with emissions (edits before and after '
    'data has flowed); after every edit the public upstreams/downstreams are read and must be mutually consistent and '
    'equal to the edge set of the history; after every emit what each node received from whom and what each sink was '
    'called with is compared with the reference interpreter over the current edges; unreferenced sink-less branches must '
    'stop being invoked after gc while unreferenced sinks keep receiving.',
    'No parallel edges, no cycles; combine_latest without emit_on; leftover complete zip tuples at a disconnect may be '
    'emitted at once, with the next element, or dropped.', 'DESIGN.md#C15')

add('C19', 'exploration', 'runtime monitoring: exhaustive enumeration of the construction matrix, reading loop/mode/thread state after each real constructor call',
    'The finite space upstream-situation x node type (incl. all 12 source classes) x asynchronous x loop is enumerated '
    'completely; after each real constructor call node.loop/asynchronous of the whole pipeline, live threads and the '
    'background-loop registry are compared with a 6-line expectation table; runnable asynchronous sources are started and '
    'the thread of every callback is recorded; pristine subprocesses observe that no thread at all is started.',
    'Expectation table of DESIGN.md Appendix B; network sources are constructed, not started.', 'DESIGN.md#C19')

add('C18', 'exploration', 'runtime monitoring on a virtual-time loop: start/stop call history vs polling cycles tagged with the run (task) performing them',
    'Histories of start()/stop() calls placed during the poll sleep, during a backpressured emit, between items and '
    'back-to-back, for five source kinds; run()/_run() of the source instance are wrapped from the harness so that every '
    'polling cycle is attributed to the event-loop task performing it; oracle: an older loop never begins a cycle after a '
    'newer one has, no cycle begins while stopped, no more runs than effective starts, items strictly increasing, '
    'from_iterable exact and waiting for downstream (an iterator never skips an item); a start() on a stopped source takes effect '
    'within two poll intervals, also after a consumer failure ended the loop; histories driven from the far end of '
    'source->map_async->sink; PeriodicDataFrame on the virtual loop; real-socket families for from_process and a keep-alive '
    'client of from_http_server; the Kafka sources on the in-memory client.',
    'Virtual clock; real temporary files for the file sources.', 'DESIGN.md#C18')

add('C17', 'exploration', 'runtime monitoring on a virtual-time loop with real files: emitted records vs written text (exactly-once, order, tail held back)',
    'Texts over an alphabet containing the delimiter characters and multi-byte characters are appended to a real temporary '
    'file in random byte chunks with 0/1/2 polls between chunks; the concatenation and the boundaries of the emitted '
    'records are compared with the written text up to its last delimiter (from_end on/off); for filenames every created '
    'path must be emitted exactly once and sorted within one poll cycle.',
    'Virtual clock; "\\r" only with a caller-supplied file object opened with newline="".', 'DESIGN.md#C17')

add('C09', 'fault_enumeration', 'runtime monitoring with crash injection: real FromKafkaBatched on an in-memory confluent_kafka client, journal + consumer history checked at every commit point and across restarts',
    'The real batched Kafka source runs on the virtual-time loop over an in-memory broker that journals every client call; '
    'range algebra per partition, exact batch content, and at every commit (the only points where durable state changes) '
    'all messages below the committed offset must have been completely processed; the process is crashed after sampled '
    '(quick) or every (thorough) recorded event, restarted with the same group id, and every message must be completed '
    'before the crash or re-delivered after it. Histories include message-less offsets, empty-valued messages and tombstones, '
    'transient failures of committed()/watermark look-ups/fetches, error events, alias spellings of the reset policy, partitions '
    'added at run time, and a consumer that pauses the source inside a poll round.',
    'Fidelity of the in-memory client for the calls used (len(message) == len(value)); per-partition in-order completion '
    'enforced by the harness consumer (the property\'s proviso).', 'DESIGN.md#C09')

add('C20', 'exploration', 'runtime monitoring: differential twin execution (local vs scatter...gather on an in-process dask cluster) with perturbed task durations',
    'The same generated chain of operations runs as a local pipeline and with scatter()/gather() around it on an '
    'in-process distributed cluster; mapped functions sleep a seeded 0-4 ms so that tasks finish out of order on the '
    'worker threads; sink sequences must be equal in order and the instrumented reference counters of the inputs must end '
    'with the same counts and completion signals; in the Dask twin an input is signalled complete only after the consumers have '
    'finished with its result, an awaited emit returns only when they have (chains without a buffer), and elements leave a Dask '
    'rate_limit at least an interval apart.',
    'Real scheduler and real time: interleavings are whatever the perturbation produces; watchdog => inconclusive.',
    'DESIGN.md#C20')

add('C06', 'exploration', 'runtime monitoring: differential execution of the real streaming dataframe pipelines against pandas on every prefix',
    'Generated tables (dyadic floats, small ints, few repeating / vanishing / re-entering keys, RangeIndex or DatetimeIndex) '
    'are split into batch sequences incl. empty batches first / in the middle / last and batches emptied by a filter, with '
    'and without NaNs; every value emitted by sum/count/size/mean/var/std/value_counts and the six groupby aggregations '
    '(column, column-list and streaming-series groupers; Series and DataFrame) is compared with pandas on the concatenated '
    'prefix; expression trees are compared per batch and mismatches attributed to the smallest failing sub-expression.',
    'pandas is the oracle (rtol=atol=1e-9, NaN==NaN, index labels sorted, dtype and names ignored); empty prefixes are not compared.',
    'DESIGN.md#C06')
add('C07', 'exploration', 'runtime monitoring: differential execution of windowed aggregations against pandas on the window slice of every prefix',
    'window(n=N) and window(value=T) aggregations and windowed groupbys, N in {1,2,3,5,8}, T in {1,2,5 s}, batches smaller / '
    'equal / larger than the window, empty batches inside a run, keys leaving and re-entering; oracle = pandas on the last N '
    'rows resp. the rows within T of the newest index; stale or missing group keys are violations.',
    'As C06; value_counts compared after dropping zero counts.', 'DESIGN.md#C07')
add('C11', 'exploration', 'runtime monitoring: concatenated streaming results vs one-pass pandas over several splits of each table',
    'rolling (row-count and time windows x 9 aggregations), cumsum/cumprod/cummin/cummax, expanding aggregations and '
    'ewm().mean(): every table is run unsplit and under several splits (empty batches, batches shorter than the window, NaN at '
    'batch ends) and the concatenation of what is emitted is compared with pandas in one pass.',
    'As C06; expanding().sum() over a prefix without valid observation is compared with pandas min_periods=0.', 'DESIGN.md#C11')
add('C12', 'fault_enumeration', 'runtime monitoring with enumerated cut points: resume a fresh pipeline from the deep-copied state after every batch',
    'For every generated batch sequence the uninterrupted run exposes its state (with_state / result-is-state / '
    'Stream.accumulate(..., with_state=True)); at EVERY cut the state is deep-copied, a fresh pipeline is started from '
    'start=state and fed the remaining batches; its results must equal the suffix of the uninterrupted run. Covers '
    'reductions, groupby, rolling, window(n), window(value), windowed groupby, expanding, ewm.',
    'std of window/expanding/windowed groupby cannot expose state (raises TypeError with with_state=True): counted, resumed via the twin var() pipeline.',
    'DESIGN.md#C12')


def main():
    props = [json.loads(l) for l in open(os.path.join(HERE, 'properties.jsonl'))]
    checks, na = [], []
    for p in props:
        pid = p['id']
        if pid in CHECKS:
            cat, tech, text, note, ref = CHECKS[pid]
            checks.append({
                'property_id': pid,
                'quick_cmd': './check %s quick' % pid,
                'thorough_cmd': './check %s thorough' % pid,
                'evidence_file': 'evidence/%s.json' % pid,
                'replay_cmd_template': './check %s --replay {path}' % pid,
                'engine': 'vf',
                'level_claimed': {'category': cat, 'text': text, 'design_ref': ref},
                'level_note': note,
                'technique': tech,
            })
        else:
            na.append({'property_id': pid, 'reason': NOT_YET})
    man = {
        'version': 1,
        'setup_cmd': '/venv/bin/python -c "import streamz, tornado, pandas; print(\'ok\')"',
        'hooks': {
            'guard': 'STREAMZ_VERIF',
            'enable': 'no source hooks are needed: all instrumentation is attached from /verif by wrapping '
                      'Stream.update/_emit and passing instrumented RefCounters; ./check exports STREAMZ_VERIF=1 anyway',
            'baseline_off_cmd': 'cd /repo && env -u STREAMZ_VERIF /venv/bin/python -m pytest -ra -q -p no:cacheprovider '
                                '--timeout=900 --continue-on-collection-errors',
            'source_commits': [],
            'add_only': True,
        },
        'engines': ENGINES,
        'checks': checks,
        'not_applicable': na,
        'notes': 'Technique family: runtime monitoring only. Verdicts: exit 0 held / exit 1 VIOLATION / exit 2 '
                 'INCONCLUSIVE. Known findings: known_findings.json (keyed by mechanism).',
    }
    with open(os.path.join(HERE, 'MANIFEST.json'), 'w') as f:
        json.dump(man, f, indent=1)
        f.write('\n')


if __name__ == '__main__':
    main()
