"""C07 -- windowed aggregations equal pandas on exactly the rows inside the window.

Runtime monitor on the E6 engine.  The REAL pipelines sdf.window(n=N) / sdf.window(value='Ts') followed by
sum, count, mean, var, std, size, value_counts or groupby(...).{sum,count,size,mean,var,std} (column grouper,
grouper taken from the Window object, plain streaming-series grouper) are fed a table batch by batch.  Oracle:

 window     after batch k, if any row has been seen, exactly one value was emitted and it equals pandas on the last
            N rows of concat(batches[:k]), resp. the rows whose index is > newest - T (1 s grid, so the window
            edge is never ambiguous); rtol=atol=1e-9, NaN==NaN, labels equal after sorting.
 keys       a windowed groupby result has exactly the keys that still own a row in the window (a surplus label is
            reported as stale-key, a lacking one as missing-key).
 counts     value_counts is compared after dropping zero counts on both sides.
 empty      nothing is compared while no row has been seen; an exception there is only counted.
"""
from .. import dfengine as E

PID = 'C07'
LEVEL = 'exploration'
RULE = ('tables of 2-16 rows (x dyadic floats, y small ints, g/h few keys in iid / run / book-end patterns so keys leave '
        'and re-enter the window; NaN-free / NaNs in x; RangeIndex or non-decreasing 1 s DatetimeIndex) x 3 compositions '
        '(batches <, =, > window, singletons, unsplit, empty first/middle/last, filter-emptied) x sampled operations: '
        'window(n in {1,2,3,5,8}) and window(value in {1,2,5} s) x {sum,count,mean,var,std,size,value_counts} on '
        'Series/DataFrame selections (selected before or after window()), windowed groupby {sum,count,size,mean,var,std} '
        'x {column, column list, Window series, streaming series}; non-trivial = compared after >= 2 non-empty batches; '
        'distinct by sha1(case)')
REQUIRED = ['cmp_window_n', 'cmp_window_t', 'cmp_window_groupby_col_n', 'cmp_window_groupby_ser_n',
            'cmp_window_groupby_col_t', 'cmp_window_groupby_ser_t', 'window_group_keys_checked', 'window_group_key_left', 'window_group_key_reentered',
            'cmp_after_empty_first_batch', 'cmp_with_nan', 'cmp_after_empty_batch', 'cmp_on_series', 'cmp_on_frame']
ASSUMPTIONS = ['pandas %s is the reference; x values are multiples of 1/4 so adding and subtracting rows is exact' % E.pd.__version__,
               'time windows are multiples of the 1 s index grid']

NS = [1, 2, 3, 5, 8]
TS = [1, 2, 5]
PRES = [None, None, None, ['y', '>=', 3], ['y', '>', 3], ['x', '>', 0], ['y', '<', 2]]


def plan(tier):
    if tier == 'thorough':
        return {'shards': 16, 'timeout_s': 1500}
    return {'shards': 4, 'timeout_s': 240}


def n_tables(tier):
    return 60 if tier == 'thorough' else 12


def gen_window_op(rng, timed):
    agg = rng.choice(['sum', 'count', 'mean', 'mean', 'var', 'std', 'size', 'value_counts'])
    win = ['t', rng.choice(TS)] if timed and rng.random() < 0.6 else ['n', rng.choice(NS)]
    if agg == 'value_counts':
        sel = rng.choice(['g', 'y', 'h', 'x'])
    else:
        sel = rng.choice(['x', 'x', 'y', ['x', 'y'], ['x', 'y']])
    op = {'fam': 'win', 'src': 'df', 'sel': sel, 'selpos': rng.choice(['before', 'after']), 'agg': agg, 'win': win,
          'pre': rng.choice(PRES)}
    if agg in ('var', 'std'):
        op['ddof'] = rng.choice([1, 1, 1, 0, 2])
    if agg not in ('value_counts', 'size') and rng.random() < 0.2:
        op['wexpr'] = rng.choice(['neg', 'add', 'mul', 'rsub'])      # element-wise step on the Window object itself
    if rng.random() < 0.15 and agg != 'value_counts':
        op.update({'src': 'series', 'sel': None, 'selpos': 'before'})
        if op['pre'] is not None:
            op['pre'] = ['x', '>', 0]
    return op


def gen_wgroupby_op(rng, timed):
    agg = rng.choice(['sum', 'count', 'size', 'mean', 'mean', 'var', 'std'])
    win = ['t', rng.choice(TS)] if timed and rng.random() < 0.6 else ['n', rng.choice(NS)]
    by = rng.choice([['col', 'g'], ['col', 'g'], ['col', 'h'], ['col', ['g', 'h']],
                     ['wser', 'g'], ['wser', 'h'], ['wser', 'y%2'], ['ser', 'g'], ['ser', 'y%2']])
    op = {'fam': 'wgb', 'src': 'df', 'sel': rng.choice(['x', 'x', 'y', ['x', 'y']]), 'by': by, 'agg': agg, 'win': win,
          'pre': rng.choice(PRES)}
    if agg in ('var', 'std'):
        op['ddof'] = rng.choice([1, 1, 1, 0, 2])
    return op


def gen_cases(rng, tier):
    for _ in range(40 if tier == 'quick' else 400):
        yield E.gen_intlabel_case(rng, True)
    for _ in range(2 if tier == 'quick' else 20):
        # every observation leaves the window again: values that are not exactly representable, then missing values only.
        # A total kept by adding and subtracting retains a rounding residue then; the results are those of no observation
        a, b = rng.choice([2, 3, 4, 5]), rng.choice([2, 3, 4])
        tab = E.gen_table(rng, n=a + b, time=False)
        c = rng.choice([0.1, 0.3, 0.7])
        tab['x'] = [c] * a + [None] * b
        tab['g'] = [rng.choice(['a', 'b']) for _ in range(a)] + ['a', 'b'] * b
        tab['g'] = tab['g'][:a + b]
        tab.pop('g_cat', None)
        for w in (1, 2):
            for agg in ('mean', 'sum', 'var', 'std'):
                dd = {'ddof': rng.choice([0, 0, 1, 2])} if agg in ('var', 'std') else {}
                src = rng.choice(['df', 'series'])
                yield {'tab': tab, 'sizes': [1] * (a + b), 'ex': 'rows',
                       'op': {'fam': 'win', 'src': src, 'sel': 'x' if src == 'df' else None, 'selpos': 'before', 'agg': agg, 'win': ['n', w], 'pre': None, **dd}}
                yield {'tab': tab, 'sizes': [1] * (a + b), 'ex': 'rows',
                       'op': {'fam': 'wgb', 'src': 'df', 'sel': 'x', 'by': [rng.choice(['col', 'ser']), 'g'], 'agg': agg, 'win': ['n', w], 'pre': None, **dd}}
    # a history found by the thorough tier (seed 91): the sum of squares of an emptied group keeps a NEGATIVE residue, -residue / 0
    # is -inf, clipped to 0: std(ddof=0) of no observation came out as 0.0 instead of NaN
    yield {'tab': {'x': [None, 0.1, None, 0.1, 0.1, 0.1, 0.1, 0.1, 0.1, 0.1, None, 0.1, None, None, 0.1, 0.1], 'y': [1, 2, 2, 0, 0, 2, 4, 0, 4, 3, 4, 3, 1, 1, 4, 1], 'g': ['b', 'c', 'b', 'b', 'c', 'c', 'a', 'd', 'd', 'd', 'd', 'c', 'b', 'a', 'd', 'c'], 'h': [1, 0, 0, 0, 0, 0, 0, 0, 0, 0, 0, 0, 0, 0, 0, 1], 't': None, 'g_cat': True}, 'sizes': [1, 2, 6, 4, 1, 1, 0, 1], 'ex': 'rows', 'op': {'fam': 'wgb', 'src': 'df', 'sel': 'x', 'by': ['col', 'h'], 'agg': 'std', 'win': ['n', 2], 'pre': None, 'ddof': 0}}
    n_w, n_g = (10, 10) if tier == 'quick' else (11, 11)
    for ti in range(n_tables(tier)):
        tab = E.gen_table(rng, nan=(ti % 2 == 1), time=(ti % 4 < 2))
        n = len(tab['y'])
        timed = tab['t'] is not None
        nanpos = [i for i, v in enumerate(tab['x']) if v is None]
        for si in range(3):
            w = rng.choice(NS[:4])
            sizes = E.gen_sizes(rng, n, style=rng.choice(['random', 'eq', 'gt', 'lt', 'ones', 'nanend', 'whole', 'random']),
                                w=w, nanpos=nanpos, max_batches=9)
            ex = rng.choice(['empty', 'rows'])
            for j in range(n_w + n_g):
                op = gen_window_op(rng, timed) if j < n_w else gen_wgroupby_op(rng, timed)
                if op['win'][0] == 'n' and rng.random() < 0.5:
                    op['win'] = ['n', w]             # the split was shaped around this window size
                yield {'tab': tab, 'sizes': sizes, 'ex': ex, 'op': op}


def _sample(case, compared):
    return {'case': case, 'observed': 'compared with pandas on the window after %d non-empty batches, all equal' % compared}


def _check(case, ctx):
    if case.get('intlabel'):
        return E.check_intlabel(case, ctx)
    return E.check_prefix(case, ctx)


def run_shard(seed, tier, shard, nshards):
    return E.drive(PID, seed, tier, shard, nshards, lambda rng: gen_cases(rng, tier), _check, sample_fn=_sample)


def replay(case):
    ctx = E.Ctx(PID)
    _check(case, ctx)
    return ctx.violations()
