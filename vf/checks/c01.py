"""C01 -- pipelines compute the dataflow semantics (DESIGN.md section 2, C01).

History + executable model: generated synchronous programs over the whole
node catalogue run on the real streamz (recorded at the node boundary) and on
the reference interpreter; every node's output sequence, every sink's call
sequence, the global order of sink calls and every edge's delivery are
compared.
"""
import random

from .. import progs, syncrun

PID = 'C01'
LEVEL = 'exploration'
RULE = ('seeded random DAG programs (1-3 entry streams, 3-12 nodes from the synchronous catalogue, '
        'fan-out/fan-in, optional feedback edge, collect+flush) x interleaved input sequences over a '
        'tiny alphabet; run in plain (blocking) and asynchronous-on-VLoop emit modes; a case is '
        'non-trivial if it has >=3 non-sink nodes and at least one sink call happened; distinct by '
        'hash of (program, inputs, mode)')
REQUIRED = ['node_output_comparisons', 'sink_sequence_comparisons', 'edge_comparisons',
            'global_order_comparisons']
ASSUMPTIONS = ['user functions are pure and total (vf/funcs.py)',
               'zip maxsize large enough that backpressure never blocks a synchronous emit',
               'reference semantics = DESIGN.md Appendix A (written from the docstrings)']


def plan(tier):
    if tier == 'thorough':
        return {'shards': 16, 'timeout_s': 1500}
    return {'shards': 4, 'timeout_s': 280}


def n_cases(tier):
    return 24000 if tier == 'thorough' else 1000


def one_case(rng, tier):
    if rng.random() < 0.12:
        # the same catalogue over None / falsy / string / nested-tuple elements with functions total on every value
        xg = progs.XGen(rng, max_nodes=7)
        prog = xg.program()
        return {'prog': prog, 'inputs': xg.inputs(prog), 'mode': 'async' if rng.random() < 0.5 else 'plain', 'exotic': True}
    g = progs.Gen(rng, max_nodes=12 if tier == 'thorough' else 10)
    prog = g.program()
    inputs = g.inputs(prog, max_len=40 if tier == 'thorough' else 25)
    mode = 'async' if rng.random() < 0.5 else 'plain'
    return {'prog': prog, 'inputs': inputs, 'mode': mode}


def check_case(case, counters=None, sets=None):
    prog, inputs, mode = case['prog'], case['inputs'], case['mode']
    res = syncrun.run_case(prog, inputs, mode=mode, with_refs=False)
    viols = []
    if res.hung:
        return None, [], res
    for i, exc in res.emit_errors:
        viols.append({'key': 'C01:emit-raised:%s' % type(exc).__name__,
                      'what': 'emit #%d raised %r although no user function fails' % (i, exc),
                      'case': case})
    bad = syncrun.rooted(prog, syncrun.compare_values(prog, res))
    if res.emit_errors:
        bad = []        # an aborted walk explains every later difference
    for clause, nid, op, detail in bad:
        viols.append({'key': 'C01:%s@%s' % (clause, op),
                      'what': 'node %s (%s): %s' % (nid, op, detail), 'case': case})
    if counters is not None:
        nn = [s for s in prog['nodes'] if s['op'] not in ('sink', 'sink_flush')]
        ns = [s for s in prog['nodes'] if s['op'] in ('sink', 'sink_flush')]
        counters['node_output_comparisons'] = counters.get('node_output_comparisons', 0) + len(nn)
        counters['sink_sequence_comparisons'] = counters.get('sink_sequence_comparisons', 0) + len(ns)
        counters['edge_comparisons'] = counters.get('edge_comparisons', 0) + res.n_edges_checked
        counters['global_order_comparisons'] = counters.get('global_order_comparisons', 0) + 1
        counters['events_observed'] = counters.get('events_observed', 0) + len(res.log.ev)
        counters['sink_calls_observed'] = counters.get('sink_calls_observed', 0) + len(res.calls)
        for s in prog['nodes']:
            sets.setdefault('node_types_seen', set()).add(s['op'])
        sets.setdefault('modes', set()).add(mode)
        if case.get('exotic'):
            counters['programs_over_exotic_values'] = counters.get('programs_over_exotic_values', 0) + 1
        if prog.get('extra_edges'):
            counters['programs_with_feedback_edge'] = counters.get('programs_with_feedback_edge', 0) + 1
    return res, viols, res


def run_shard(seed, tier, shard, nshards):
    rng = random.Random('%s-%d-%d-%s' % (PID, seed, shard, tier))
    out = {'evaluations': 0, 'keys': [], 'violations': [], 'samples': [], 'counters': {},
           'sets': {}, 'inconclusive': []}
    n = n_cases(tier)
    for k in range(n):
        case = one_case(rng, tier)
        res, viols, _ = check_case(case, out['counters'], out['sets'])
        out['evaluations'] += 1
        if res is None:
            out['inconclusive'].append('case %d: blocking emit did not return (watchdog)' % k)
            _keep_hung(case, seed, shard, k)
            continue
        nn = [s for s in case['prog']['nodes'] if s['op'] not in ('sink', 'sink_flush')]
        if len(nn) >= 3 and res.calls:
            out['keys'].append(progs.prog_key(case['prog'], [case['inputs'], case['mode']]))
        out['violations'].extend(viols)
        if len(out['samples']) < 2 and len(nn) >= 4 and res.calls:
            out['samples'].append({'program': [_short(s) for s in case['prog']['nodes']],
                                   'extra_edges': case['prog'].get('extra_edges'),
                                   'inputs': case['inputs'][:12], 'mode': case['mode'],
                                   'sink_calls': [list(map(str, c)) for c in res.calls[:12]]})
    return out


def _short(spec):
    return ' '.join('%s=%s' % (k, v) for k, v in spec.items() if v not in (None, [], {}))


def replay(case):
    _, viols, _ = check_case(case, {}, {})
    return viols


def _keep_hung(case, seed, shard, k):
    """a blocking emit that did not return within the watchdog is inconclusive, but the case is kept for inspection"""
    import json
    import os
    d = os.path.join(os.path.dirname(os.path.dirname(os.path.dirname(os.path.abspath(__file__)))), 'replays')
    os.makedirs(d, exist_ok=True)
    with open(os.path.join(d, '%s-hang-%d-%d-%d.json' % (PID, seed, shard, k)), 'w') as fh:
        json.dump({'property': PID, 'key': PID + ':inconclusive-hang', 'what': 'blocking emit did not return', 'case': case}, fh, default=str)
