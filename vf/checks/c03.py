"""C03 -- backpressure: emit waits for downstream, in-flight data is bounded,
no deadlock.

Four families of executions, all on the real code:
 A1 direct pipelines (every synchronous node + rate_limit), one awaiting producer: between the completion of
    emit(k) and the start of emit(k+1) the pipeline must be silent and no consumer call may be open;
 A2 per-element direct pipelines, 1-3 producers awaiting or not: every consumer call caused by element k
    (attributed through the identity of its metadata) ENDs before emit(k) completes;
 B  bounds, checked after every event of the history: buffer(n): accepted - emitted <= n;
    map_async(parallelism=n): accepted - emitted <= n + 1 and running evaluations <= n;
    zip(maxsize=n), one awaiting producer per input: per input accepted - matched <= n;
 S  source-driven: the producer is a real source (from_periodic, from_iterable, from_textfile, filenames) started on the
    loop, in front of a direct chain or of buffer(n)/map_async(n), with consumers slower than the polling period: a
    source takes its next element only after the awaitable of its previous emission has completed, so consumer calls of
    a direct chain never overlap and a bounding node never holds more than its bound plus the one element the source is
    held back with;
 T  threaded: pipeline bound to the shared background loop, 1-4 caller threads doing blocking emits; when emit()
    returns every consumer call on that element has already ended (event order in a lock-protected log).
In every family: once all consumers have completed and the loop is idle/quiescent, no emit may be pending.
"""
import random
import threading
import time

from .. import aprogs, asyncrun, progs

PID = 'C03'
LEVEL = 'exploration'
RULE = ('families A1/A2/B/T as in the module docstring; consumers: sync / native coroutine / Future with service times '
        'from {0,.25,.5,1,1.5,2}; bounds n in {1,2,3,5}; non-trivial = at least one asynchronous consumer call with '
        'non-zero service time (A), the bound was reached at least once minus one (B), >=2 caller threads overlapped (T); '
        'distinct by hash(case)')
REQUIRED = ['A1_emit_windows_checked', 'A2_calls_attributed', 'B_bound_points_checked', 'T_emits_checked',
            'S_source_emissions_checked']
ASSUMPTIONS = ['bounds as documented by the mechanism: buffer(n) queue n; map_async n queued + 1 being delivered; '
               'zip(maxsize) with one awaiting producer per input',
               'threaded verdicts are on event order only; a wall-clock watchdog firing is inconclusive']
INCONCLUSIVE_BUDGET = 0.03

DIRECT_SYNC = ['map', 'map', 'filter', 'accumulate', 'unique', 'sliding_window', 'partition', 'partition_unique',
               'pluck', 'starmap', 'flatten', 'union', 'zip', 'combine_latest', 'zip_latest', 'slice']
PER_ELEMENT = ['map', 'map', 'filter', 'accumulate', 'unique', 'union', 'slice']


def plan(tier):
    if tier == 'thorough':
        return {'shards': 16, 'timeout_s': 1700}
    return {'shards': 8, 'timeout_s': 280}


def n_cases(tier):
    return {'A1': 5000, 'A2': 5000, 'B': 6000, 'S': 3000, 'W': 40, 'T': 60} if tier == 'thorough' else \
        {'A1': 90, 'A2': 90, 'B': 120, 'S': 60, 'W': 3, 'T': 6}


def slow_sinks(prog, rng):
    for s in prog['nodes']:
        if s['op'] == 'sink' and rng.random() < 0.8:
            s['kind'] = rng.choice(['coro', 'future', 'tornado', 'awaitable', 'coro', 'future', 'tornado', 'awaitable', 'awaitable_falsy'])
            if s['svc'] == [0]:
                s['svc'] = [rng.choice([0.25, 0.5, 1.0])]


def bare_elements(case, rng):
    """consumers that hand back a falsy awaitable: some elements travel without metadata, so that the sink hands that very
    object back (with metadata it wraps it in a coroutine of its own)"""
    if any(s.get('kind') == 'awaitable_falsy' for s in case['prog']['nodes']):
        for p in case['producers']:
            for it in p:
                if not str(it[1]).startswith('!') and rng.random() < 0.6:
                    it[3] = 0
    return case


def gen_case(rng, fam):
    if fam == 'A1' and rng.random() < 0.08:
        # a collector flushed by a second stream (`trigger.sink(collector.flush)`): the trigger's emit hands the collection
        # to the consumers behind the collector and has to wait for them like any other emit
        g = aprogs.AGen(rng)
        nodes = [{'id': 'n0', 'op': 'source', 'ups': []}, {'id': 'n1', 'op': 'source', 'ups': []},
                 {'id': 'c', 'op': 'collect', 'ups': ['n0']}, {'id': 'fl', 'op': 'sink_flush', 'ups': ['n1'], 'target': 'c'}]
        last = 'c'
        if rng.random() < 0.4:
            nodes.append({'id': 'm', 'op': 'map', 'ups': ['c'], 'f': 'ident'})
            last = 'm'
        nodes.append({'id': 'sk', 'op': 'sink', 'ups': [last], 'kind': rng.choice(['coro', 'future', 'tornado', 'awaitable']),
                      'svc': [rng.choice([0.25, 0.5, 1.0])]})
        items = [[rng.choice(aprogs.GAP_GRID), rng.choice(['n0', 'n0', 'n1']), rng.randrange(5), 1] for _ in range(rng.randrange(3, 12))]
        return {'family': fam, 'prog': {'nodes': nodes, 'extra_edges': []}, 'producers': [items], 'awaiting': True, 'flush_trigger': True}
    if fam == 'A1':
        g = aprogs.AGen(rng, async_ops=['rate_limit'], sync_ops=DIRECT_SYNC, max_nodes=7, p_async=0.2)
        prog = g.program(min_async=0)
        slow_sinks(prog, rng)
        prods = g.producers(prog, max_total=12)
        merged = [it for p in prods for it in p]        # one producer
        return bare_elements({'family': fam, 'prog': prog, 'producers': [merged], 'awaiting': True}, rng)
    if fam == 'A2':
        g = aprogs.AGen(rng, async_ops=['rate_limit'], sync_ops=PER_ELEMENT, max_nodes=6, p_async=0.25)
        prog = g.program(min_async=0)
        slow_sinks(prog, rng)
        return bare_elements({'family': fam, 'prog': prog, 'producers': g.producers(prog, max_total=14),
                              'awaiting': rng.random() < 0.6}, rng)
    if fam == 'B':
        n = rng.choice([1, 1, 2, 3, 5])
        kind = rng.choice(['buffer', 'map_async', 'zip'])
        nodes = [{'id': 'n0', 'op': 'source', 'ups': []}]
        g = aprogs.AGen(rng)
        if kind == 'buffer':
            nodes.append({'id': 'n1', 'op': 'buffer', 'ups': ['n0'], 'n': n})
        elif kind == 'map_async':
            nodes.append({'id': 'n1', 'op': 'map_async', 'ups': ['n0'], 'f': 'ident', 'parallelism': n,
                          'svc': g._svc(), 'ret': rng.choice(['coro', 'future', 'tornado'])})
            if nodes[-1]['ret'] != 'coro' and rng.random() < 0.3:
                # the mapped function raises when it is called for one element: that emit fails, every later one still completes
                nodes[-1]['fail_at_call'] = [rng.randrange(0, 3)]
        else:
            nodes.append({'id': 'n1', 'op': 'source', 'ups': []})
            if rng.random() < 0.1:
                n = 0            # legal boundary: every unmatched element holds its producer back
            k = rng.choice([2, 2, 3])
            if k == 3:
                nodes.append({'id': 'n1b', 'op': 'source', 'ups': []})
            ups = ['n0', 'n1'] + (['n1b'] if k == 3 else [])
            nodes.append({'id': 'n2', 'op': 'zip', 'ups': ups, 'literals': [], 'maxsize': n})
        last = nodes[-1]['id']
        if rng.random() < 0.4:
            nodes.append({'id': 'm', 'op': 'map', 'ups': [last], 'f': 'ident'})
            last = 'm'
        nodes.append({'id': 'sk', 'op': 'sink', 'ups': [last], 'kind': rng.choice(['coro', 'future', 'tornado', 'awaitable']),
                      'svc': [x or 0.25 for x in g._svc()] if rng.random() < 0.8 else [0]})
        prog = {'nodes': nodes, 'extra_edges': []}
        entries = [s['id'] for s in nodes if s['op'] == 'source']
        if kind == 'zip' and n >= 1 and rng.random() < 0.3:
            # ONE sequential, awaiting producer feeds all inputs and lets one input run ahead of the others by up to exactly
            # maxsize elements: that is within the bound, so no emit may be held back (it would wait for ever)
            items, lead = [], {e: 0 for e in entries}
            for _ in range(rng.randrange(4, 16)):
                ok = [e for e in entries if lead[e] - min(lead.values()) < n]
                e = rng.choice(ok)
                lead[e] += 1
                items.append([rng.choice([0, 0, 0.25]), e, rng.randrange(5), 1])
            prods = [items]
            awaiting = True
        elif kind == 'zip':
            cnt = rng.randrange(2, 9)
            prods = [[[rng.choice(aprogs.GAP_GRID), e, rng.randrange(5), 1] for _ in range(cnt)] for e in entries]
            awaiting = True
        else:
            np_ = rng.choice([1, 1, 2, 3])
            prods = [[[rng.choice(aprogs.GAP_GRID), 'n0', rng.randrange(5), 1] for _ in range(rng.randrange(2, 9))]
                     for _ in range(np_)]
            awaiting = rng.random() < 0.7
        return {'family': fam, 'prog': prog, 'producers': prods, 'awaiting': awaiting, 'bound': [kind, n]}
    if fam == 'W':
        return {'family': 'W', 'wrapper': rng.choice(['dataframe', 'batch']), 'n': rng.randrange(1, 5), 'svc': rng.choice([0.25, 0.5, 1.0]),
                'map': rng.random() < 0.5}
    if fam == 'S':
        mid = rng.choice(['none', 'map', 'buffer', 'buffer', 'map_async', 'rate_limit'])
        return {'family': 'S', 'src': rng.choice(['periodic', 'periodic', 'iterable', 'textfile', 'filenames']),
                'poll': rng.choice([0.1, 0.25, 0.5, 1.0]), 'items': rng.randrange(4, 11), 'mid': mid,
                'n': rng.choice([1, 1, 2, 3]), 'sink_kind': rng.choice(['coro', 'future', 'tornado']),
                'svc': [rng.choice([0, 0.25, 0.5, 1.0, 1.5, 2.0, 3.0]) for _ in range(rng.choice([1, 2, 3]))]}
    # threaded
    nthreads = rng.choice([1, 2, 3, 4])
    chain = rng.choice([['map'], ['map', 'rate_limit'], ['rate_limit'], ['map', 'filter'], ['accumulate']])
    case = {'family': 'T', 'threads': nthreads, 'per_thread': rng.randrange(2, 6), 'chain': chain,
            'sink_ms': rng.choice([0, 1, 3]), 'sink_kind': rng.choice(['coro', 'future', 'sync', 'tornado'])}
    if rng.random() < 0.3:
        # consumers that forward the element into a second loop-bound pipeline with a nested emit() (the
        # `a.sink(b.emit)` pattern), from 2-3 caller threads whose emits overlap and finish at different times
        case.update({'forwarding': True, 'threads': rng.choice([2, 2, 3]), 'per_thread': rng.choice([1, 2]),
                     'sink_kind': 'coro', 'sink_ms': 0, 'fwd_ms': [rng.choice([5, 20, 60]) for _ in range(3)]})
        return case
    if rng.random() < 0.3:
        case['join'] = rng.choice(['union', 'union_below_map'])
    if rng.random() < 0.3:
        # the caller threads run an event loop of their own and call the blocking emit from a coroutine on it
        case['caller_loop'] = True
    if rng.random() < 0.3:
        # a consumer that outlasts the internal polling period of the blocking wait: the harness scales the
        # timeouts streamz passes to threading.Event.wait by 1/100 (10 s -> 0.1 s) and makes the consumer take 0.25 s
        case.update({'scaled_waits': True, 'sink_ms': 250, 'per_thread': 1, 'threads': rng.choice([1, 2]),
                     'sink_kind': rng.choice(['coro', 'future', 'tornado'])})
    return case


# ---------------------------------------------------------------------------

def check_async(case, counters, sets):
    fam = case['family']
    ar = asyncrun.run_async(case)
    if ar.stop in ('iter-cap', 'vt-cap', 'watchdog'):
        return ar, None
    viols, seen = [], set()

    def add(key, what):
        if key not in seen:
            seen.add(key)
            viols.append({'key': key, 'what': what, 'case': case})
    log = ar.log
    specs = {s['id']: s for s in case['prog']['nodes']}

    def up_op(nid):
        u = specs[nid].get('ups') or [None]
        return specs[u[0]]['op'] if u[0] in specs else '?'
    for name, msg, exc in ar.errors:
        add('C03:loop-exception:%s' % (type(exc).__name__ if exc is not None else 'log'), '%s %s %r' % (name, msg[:200], exc))
    injected_call_failures = any(s.get('fail_at_call') for s in case['prog']['nodes'])
    for i, exc in ar.emit_exc.items():
        if injected_call_failures and type(exc).__name__.startswith('Injected'):
            counters['B_emits_failed_by_a_function_that_raises_when_called'] = counters.get('B_emits_failed_by_a_function_that_raises_when_called', 0) + 1
            continue
        add('C03:emit-raised:%s' % type(exc).__name__, 'emit #%d raised %r' % (i, exc))
    # a consumer call is open from the moment the consumer function is invoked (CALLED) -- for a coroutine-style consumer
    # that is before its body runs -- until it reports END / FAILED
    open_calls = sum(1 for e in log.ev if e[2] == 'CALLED') - sum(1 for e in log.ev if e[2] in ('END', 'FAILED'))
    if open_calls > 0 and not ar.pending_emits and ar.producers_done and not ar.emit_exc and fam in ('A1', 'A2'):
        never = [e for e in log.ev if e[2] == 'CALLED' and not any(f[2] in ('END', 'FAILED') and f[3] == e[3] and f[5] == e[5] for f in log.ev)]
        if never:
            add('C03:emit-completed-but-consumer-call-never-ended', 'loop %s: every emit has completed, yet the call of consumer %s '
                'with %r (a %s-style consumer) never ended' % (ar.stop, never[0][3], never[0][4], specs[never[0][3]].get('kind')))
    if (ar.pending_emits or not ar.producers_done) and open_calls == 0:
        add('C03:emit-never-completed', 'loop %s, every consumer call has ended, but emits %s are still pending'
            % (ar.stop, sorted(ar.pending_emits)[:8]))
    ar.interesting = False
    if fam == 'A1':
        open_n = 0
        in_window = False        # between EMIT_DONE(k) and ENTRY(k+1)
        for e in log.ev:
            k = e[2]
            if k == 'ENTRY':
                in_window = False
            elif k == 'EMIT_DONE':
                counters['A1_emit_windows_checked'] = counters.get('A1_emit_windows_checked', 0) + 1
                if open_n > 0:
                    add('C03:emit-done-with-open-consumer-call', 'emit #%d completed at t=%s while %d consumer call(s) '
                        'had not ended' % (e[4], e[1], open_n))
                in_window = True
            elif k == 'CALLED':
                open_n += 1
                if in_window:
                    add('C03:consumer-called-after-emit-done@%s' % up_op(e[3]),
                        'sink %s (behind %s) started handling %r at t=%s after the emit that caused it had completed'
                        % (e[3], up_op(e[3]), e[4], e[1]))
            elif k in ('END', 'FAILED'):
                open_n -= 1
            elif k in ('IN', 'OUT') and in_window and asyncrun.substantive(e):
                add('C03:activity-after-emit-done@%s' % specs.get(e[3], {}).get('op', '?'),
                    '%s at node %s at t=%s although no emit is in progress' % (k, e[3], e[1]))
        ar.interesting = any(e[2] == 'END' and e[1] > 0 for e in log.ev)
    elif fam == 'A2':
        done_at = {e[4]: e[0] for e in log.ev if e[2] == 'EMIT_DONE'}
        for e in log.ev:
            if e[2] in ('END', 'FAILED'):
                cause = e[6][0]
                ents = {ar.dict_entry.get(d) for d in cause}
                ents.discard(None)
                if len(ents) == 1:
                    k = ents.pop()
                    counters['A2_calls_attributed'] = counters.get('A2_calls_attributed', 0) + 1
                    if k in done_at and done_at[k] < e[0]:
                        add('C03:emit-done-before-consumer-end@%s' % up_op(e[3]),
                            'emit #%d completed (log position %d) before sink %s finished handling it (position %d, t=%s)'
                            % (k, done_at[k], e[3], e[0], e[1]))
        ar.interesting = any(e[2] == 'END' and e[1] > 0 for e in log.ev)
    elif fam == 'B':
        kind, n = case['bound']
        nid = 'n2' if kind == 'zip' else 'n1'
        acc = {}
        pending_who = {}
        outs = 0
        last_in_who = None
        hi = 0
        for e in log.ev:
            if e[3] != nid:
                continue
            k = e[2]
            if kind == 'zip':
                def chk():
                    nonlocal hi
                    counters['B_bound_points_checked'] = counters.get('B_bound_points_checked', 0) + 1
                    for w, a in acc.items():
                        hi = max(hi, a - outs)
                        if a - outs > n:
                            add('C03:bound-exceeded@zip', 'zip(maxsize=%d): input %s has %d accepted-but-unmatched '
                                'elements at t=%s' % (n, w, a - outs, e[1]))
                if k not in ('IN', 'PENDING', 'ACCEPTED', 'OUT'):
                    continue
                if k not in ('PENDING', 'OUT'):
                    # state after the previous event: an IN followed neither by PENDING (held back) nor by OUT
                    # (matched within the same call) was accepted and is waiting for a partner
                    chk()
                if k == 'IN':
                    acc[e[4]] = acc.get(e[4], 0) + 1
                    last_in_who = e[4]
                elif k == 'PENDING':
                    acc[last_in_who] -= 1
                    pending_who[e[0]] = last_in_who
                    chk()
                elif k == 'ACCEPTED':
                    w = pending_who.pop(e[6], None)
                    if w is not None:
                        acc[w] += 1
                    chk()
                elif k == 'OUT':
                    outs += 1
                    chk()
            else:
                if k == 'ACCEPTED' and e[5] is not None:
                    continue            # the insertion failed (the mapped function raised when called): nothing was accepted
                if k == 'ACCEPTED':
                    acc[0] = acc.get(0, 0) + 1
                elif k == 'OUT':
                    outs += 1
                else:
                    continue
                counters['B_bound_points_checked'] = counters.get('B_bound_points_checked', 0) + 1
                lim = n + 1      # n queued + the one the forwarding coroutine has taken out
                hi = max(hi, acc.get(0, 0) - outs)
                if acc.get(0, 0) - outs > lim:
                    add('C03:bound-exceeded@%s' % kind, '%s(%d): %d elements accepted but not yet handed on at t=%s (limit %d)'
                        % (kind, n, acc.get(0, 0) - outs, e[1], lim))
        if kind == 'zip':
            # one awaiting producer per input: a held-back emit is exactly one element beyond the bound, so every emit
            # that is held back when a tuple leaves the buffers must be let go at that very (virtual) instant
            released_at = {e[6]: e[1] for e in log.ev if e[3] == nid and e[2] == 'ACCEPTED'}
            due = {}
            cur = {}
            for e in log.ev:
                if e[3] != nid:
                    continue
                if e[2] == 'PENDING':
                    cur[e[0]] = e
                elif e[2] == 'ACCEPTED':
                    cur.pop(e[6], None)
                elif e[2] == 'OUT':
                    for idx, pe in cur.items():
                        due.setdefault(idx, (e[1], pe))
            for idx, (t_due, pe) in due.items():
                counters['B_zip_waiters_checked'] = counters.get('B_zip_waiters_checked', 0) + 1
                t_rel = released_at.get(idx)
                if t_rel is None or t_rel > t_due + 1e-9:
                    add('C03:waiter-not-released@zip', 'zip(maxsize=%d): an emit of %r was held back at t=%s; a tuple left the '
                        'buffers at t=%s (its buffer is back within the bound) but the emit was released %s'
                        % (n, pe[4], pe[1], t_due, 'never' if t_rel is None else 'only at t=%s' % t_rel))
        if kind == 'map_async':
            mr = ar.max_running.get('n1', 0)
            counters['B_parallel_evaluation_checks'] = counters.get('B_parallel_evaluation_checks', 0) + 1
            if mr == n + 1:
                add('C03:parallel-evaluations==parallelism+1@map_async',
                    'map_async(parallelism=%d) ran %d evaluations of the user coroutine at the same time' % (n, mr))
            elif mr > n + 1:
                add('C03:parallel-evaluations>parallelism+1@map_async',
                    'map_async(parallelism=%d) ran %d evaluations of the user coroutine at the same time' % (n, mr))
        ar.interesting = hi >= max(1, (n if kind != 'map_async' else n + 1) - 1)
        sets.setdefault('bounded_nodes', set()).add('%s(%d)' % (kind, n))
    sets.setdefault('interleaving_signatures', set()).add(asyncrun.signature(log))
    counters['events_observed'] = counters.get('events_observed', 0) + len(log.ev)
    return ar, viols


# ---------------------------------------------------------------------------
# threaded family
# ---------------------------------------------------------------------------

def check_threaded(case, counters, sets):
    import asyncio
    from streamz import Stream
    from tornado import gen
    lock = threading.Lock()
    events = []
    import streamz.core as score
    real_threading = score.threading
    if case.get('scaled_waits'):
        class FastEvent(threading.Event):
            def wait(self, timeout=None):
                return threading.Event.wait(self, None if timeout is None else timeout / 100.0)

        class Shim:
            Event = FastEvent

            def __getattr__(self, name):
                return getattr(real_threading, name)
        score.threading = Shim()

    def rec(*a):
        with lock:
            events.append(a)
    ms = case['sink_ms'] / 1000.0
    kind = case['sink_kind']
    src = Stream()
    node = src
    for op in case['chain']:
        if op == 'map':
            node = node.map(lambda x: x)
        elif op == 'filter':
            node = node.filter(lambda x: True)
        elif op == 'accumulate':
            node = node.accumulate(lambda s, x: x, start=None)
        elif op == 'rate_limit':
            node = node.rate_limit(0.001)
    probe = node.buffer(1) if False else None      # never: direct pipelines only
    other = None
    if case.get('forwarding'):
        other = Stream()
        other_tail = other.rate_limit(0)           # binds the second pipeline to the background loop as well

        def other_sink(x):
            rec('FWD_DONE', x)
        other_keep = other_tail.sink(other_sink)
        fwd_ms = case['fwd_ms']

        async def sink(x):
            rec('START', x)
            await asyncio.sleep(fwd_ms[x[0] % len(fwd_ms)] / 1000.0)
            r = other.emit(x)                       # nested emit, on the loop thread
            if r is not None and hasattr(r, '__await__'):
                await r
            rec('END', x)
    elif kind == 'coro':
        async def sink(x):
            rec('START', x)
            if ms:
                await asyncio.sleep(ms)
            rec('END', x)
    elif kind == 'future':
        def sink(x):
            rec('START', x)
            return gen.sleep(ms).add_done_callback(lambda f: rec('END', x)) or _fut_after(ms, lambda: rec('END', x))
    else:
        def sink(x):
            rec('START', x)
            if ms:
                time.sleep(ms)
            rec('END', x)
    if kind == 'future':
        def sink(x):        # noqa: F811
            rec('START', x)
            f = gen.sleep(ms)
            out = asyncio.Future() if False else None
            fut = gen.Future()

            def fin(_):
                rec('END', x)
                fut.set_result(None)
            f.add_done_callback(fin)
            return fut
    # a loop-needing node binds the pipeline to the background loop in blocking mode
    if not any(op == 'rate_limit' for op in case['chain']):
        node = node.rate_limit(0)
    entries = [src]
    if case.get('join'):
        # a second, undeclared source joined in below the node that brought the loop: blocking emits into IT must wait as well
        other_src = Stream()
        node = getattr(node, case['join'])(other_src) if case['join'] == 'union' else node.union(other_src.map(lambda x: x))
        entries.append(other_src)
        counters['T_cases_with_a_joined_second_source'] = counters.get('T_cases_with_a_joined_second_source', 0) + 1
    s = node.sink(sink)
    errors = []

    def worker(t):
        for j in range(case['per_thread']):
            x = (t, j)
            rec('CALL_EMIT', x)
            try:
                entries[(t + j) % len(entries)].emit(x)
            except Exception as ex:
                errors.append((x, ex))
                rec('EMIT_RAISED', x, ex)
            else:
                rec('EMIT_RETURNED', x)
    if case.get('caller_loop'):
        plain_worker = worker

        def worker(t):          # noqa: F811
            async def main():
                plain_worker(t)
            asyncio.run(main())
        counters['T_cases_with_caller_side_event_loop'] = counters.get('T_cases_with_caller_side_event_loop', 0) + 1
    ths = [threading.Thread(target=worker, args=(t,), daemon=True) for t in range(case['threads'])]
    for t in ths:
        t.start()
    deadline = time.time() + (8 if case.get('forwarding') else 60)
    for t in ths:
        t.join(max(0.1, deadline - time.time()))
    hung = any(t.is_alive() for t in ths)
    score.threading = real_threading
    if hung and case.get('forwarding'):
        # not a timing guess: is the loop thread itself sitting inside sync(), waiting for a callback that only
        # it could run?  Then no emit on this loop can ever complete again.
        import sys as _sys
        import traceback as _tb
        stuck = None
        for tid, frame in _sys._current_frames().items():
            names = [f.name for f in _tb.extract_stack(frame)]
            files = [f.filename for f in _tb.extract_stack(frame)]
            if 'sync' in names and any('tornado' in f or 'asyncio' in f for f in files) and \
                    any(n in ('_run_once', 'run_forever', 'start') for n in names):
                stuck = names[-6:]
        score._io_loops.clear()          # the background loop is lost: later cases get a fresh one
        if stuck is not None:
            counters['T_emits_checked'] = counters.get('T_emits_checked', 0) + 1
            v = [{'key': 'C03:loop-thread-blocked-in-sync@Stream.emit',
                  'what': 'overlapping blocking emits from %d threads with consumers that forward via a nested emit(): the '
                          'event-loop thread itself called sync() and waits for a callback only it could run (%s); the pending '
                          'blocking emit can never return' % (case['threads'], ' > '.join(stuck)), 'case': case}]

            class D2:
                pass
            d2 = D2()
            d2.interesting = True
            return d2, v
    if case.get('scaled_waits'):
        time.sleep(0.4)         # let the consumers finish before the next case
        counters['T_emits_outlasting_the_wait_period'] = counters.get('T_emits_outlasting_the_wait_period', 0) + case['threads']
    s.destroy()
    if hung:
        return None, None
    viols, seen = [], set()

    def add(key, what):
        if key not in seen:
            seen.add(key)
            viols.append({'key': key, 'what': what, 'case': case})
    with lock:
        ev = list(events)
    pos_end = {}
    for i, e in enumerate(ev):
        if e[0] == 'END':
            pos_end[e[1]] = i
    overlapped = False
    inflight = 0
    for i, e in enumerate(ev):
        if e[0] == 'CALL_EMIT':
            inflight += 1
            overlapped = overlapped or inflight > 1
        elif e[0] in ('EMIT_RETURNED', 'EMIT_RAISED'):
            inflight -= 1
        if e[0] == 'EMIT_RETURNED':
            counters['T_emits_checked'] = counters.get('T_emits_checked', 0) + 1
            if e[1] not in pos_end or pos_end[e[1]] > i:
                add('C03:blocking-emit-returned-before-consumer-end',
                    'blocking emit(%r) returned before the consumer had finished with it' % (e[1],))
        elif e[0] == 'EMIT_RAISED':
            counters['T_emits_checked'] = counters.get('T_emits_checked', 0) + 1
            add('C03:spurious-%s-overlapping-blocking-emits@Stream.emit' % type(e[2]).__name__,
                'blocking emit(%r) raised %r although no user function fails (%d caller threads)' % (e[1], e[2], case['threads']))
    sets.setdefault('thread_counts', set()).add(case['threads'])

    class Dummy:
        pass
    d = Dummy()
    d.interesting = overlapped or case['threads'] == 1
    d.n_events = len(ev)
    return d, viols


def check_sources(case, counters, sets):
    import asyncio
    import itertools
    import os
    import shutil
    import tempfile
    from tornado import gen
    from streamz import Stream
    from .. import recorder as R
    from ..vloop import virtual_env
    viols, seen = [], set()

    def add(key, what):
        if key not in seen:
            seen.add(key)
            viols.append({'key': key, 'what': what, 'case': case})
    n_items, poll, svc, kind = case['items'], case['poll'], case['svc'], case['sink_kind']
    tmp = tempfile.mkdtemp(prefix='vfc03_') if case['src'] in ('textfile', 'filenames') else None
    try:
        with virtual_env() as env:
            loop = env.loop
            with R.recording(env.now) as log:
                if case['src'] == 'periodic':
                    cnt = itertools.count()
                    src = Stream.from_periodic(lambda: next(cnt), poll_interval=poll, asynchronous=True)
                elif case['src'] == 'iterable':
                    src = Stream.from_iterable(list(range(n_items)), asynchronous=True)
                elif case['src'] == 'textfile':
                    fn = os.path.join(tmp, 'f.txt')
                    with open(fn, 'w') as f:
                        f.write(''.join('%d\n' % i for i in range(n_items)))
                    src = Stream.from_textfile(fn, poll_interval=poll, asynchronous=True)
                else:
                    for i in range(n_items):
                        open(os.path.join(tmp, 'f%02d' % i), 'w').close()
                    src = Stream.filenames(tmp, poll_interval=poll, asynchronous=True)
                log.name(src, 'src')
                node = src
                if case['mid'] == 'map':
                    node = node.map(lambda x: x)
                elif case['mid'] == 'buffer':
                    from streamz.core import buffer as _buffer      # from_textfile has a data attribute named buffer
                    node = _buffer(node, case['n'])
                elif case['mid'] == 'map_async':
                    async def ident(x):
                        await asyncio.sleep(svc[0])
                        return x
                    node = node.map_async(ident, parallelism=case['n'])
                elif case['mid'] == 'rate_limit':
                    node = node.rate_limit(poll / 2)
                if node is not src:
                    log.name(node, 'mid')
                calls = {'n': 0}

                async def body(x, k):
                    d = svc[k % len(svc)]
                    if d:
                        await asyncio.sleep(d)
                    log.add('END', 'sk', x)

                def sink(x):
                    k = calls['n']
                    calls['n'] += 1
                    log.add('START', 'sk', x)
                    if kind == 'coro':
                        return body(x, k)
                    if kind == 'future':
                        return asyncio.ensure_future(body(x, k))
                    return gen.convert_yielded(body(x, k))
                node.sink(sink)
                src.start()
                horizon = (n_items + 2) * (poll + max(svc) + 0.1) * 2
                if case['src'] == 'periodic':
                    loop.call_later(n_items * poll, src.stop)
                reason = loop.drive(until_vt=horizon, max_iters=300000)
                src.stop()
                loop.drive(until_vt=horizon + 2 * (poll + max(svc)) + 1, max_iters=100000)
                errors = list(env.errors)
    finally:
        if tmp:
            shutil.rmtree(tmp, ignore_errors=True)

    class Res:
        pass
    r = Res()
    r.stop = reason
    if reason == 'iter-cap':
        return r, None
    for name, msg, exc in errors:
        add('C03:loop-exception:%s' % (type(exc).__name__ if exc is not None else 'log'), '%s %s %r' % (name, msg[:200], exc))
    bounded = case['mid'] in ('buffer', 'map_async')
    open_n = max_open = 0
    ins = outs = hi = 0
    n_src = 0
    for e in log.ev:
        k = e[2]
        if k == 'OUT' and e[3] == 'src':
            n_src += 1
            counters['S_source_emissions_checked'] = counters.get('S_source_emissions_checked', 0) + 1
            if not bounded and open_n > 0:
                add('C03:source-emitted-before-previous-emission-completed@%s' % type(src).__name__,
                    '%s produced %r at t=%s while %d consumer call(s) on its previous element(s) had not ended (direct chain '
                    '%s, consumer service times %s, poll interval %s)' % (type(src).__name__, e[4], e[1], open_n, case['mid'], svc, poll))
        elif k == 'START':
            open_n += 1
            max_open = max(max_open, open_n)
        elif k == 'END':
            open_n -= 1
        elif bounded and e[3] == 'mid' and k in ('IN', 'OUT'):
            if k == 'IN':
                ins += 1
            else:
                outs += 1
            counters['S_bound_points_checked'] = counters.get('S_bound_points_checked', 0) + 1
            hi = max(hi, ins - outs)
            # n queued + the one being handed on + the one the source is held back with
            if ins - outs > case['n'] + 2:
                add('C03:source-overruns-bound@%s+%s' % (type(src).__name__, case['mid']),
                    '%s(%d) fed by %s: %d elements taken in and not yet handed on at t=%s (bound %d + one being delivered + one '
                    'held-back emission)' % (case['mid'], case['n'], type(src).__name__, ins - outs, e[1], case['n']))
    ends = sum(1 for e in log.ev if e[2] == 'END')
    if open_n == 0 and case['src'] != 'periodic' and ends < n_items and reason != 'iter-cap':
        add('C03:source-stalled@%s' % type(src).__name__, '%s delivered %d of its %d items although every consumer call ended'
            % (type(src).__name__, ends, n_items))
    sets.setdefault('source_kinds', set()).add('%s+%s' % (case['src'], case['mid']))
    counters['events_observed'] = counters.get('events_observed', 0) + len(log.ev)
    r.interesting = n_src >= 3 and max(svc) > poll
    return r, viols


def check_wrapper(case, counters, sets):
    """emit() of the collection wrappers (streamz.collection.Streaming: DataFrame / Series / Batch) on an asynchronous
    stream: what it returns must be awaitable and must not complete before the consumers have finished"""
    import asyncio
    import pandas as pd
    from streamz import Stream
    from streamz.dataframe import DataFrame
    from streamz.batch import Batch
    from ..vloop import virtual_env
    viols = []
    ev = []
    with virtual_env() as env:
        loop = env.loop
        src = Stream(asynchronous=True)
        if case['wrapper'] == 'dataframe':
            example = pd.DataFrame({'x': [1.0]})
            coll = DataFrame(src, example=example)
            batches = [pd.DataFrame({'x': [float(i)]}) for i in range(case['n'])]
        else:
            coll = Batch(src, example=[1])
            batches = [[i] for i in range(case['n'])]

        async def consumer(x):
            ev.append(('START', len(ev)))
            await asyncio.sleep(case['svc'])
            ev.append(('END', len(ev)))
        (src.map(lambda x: x) if case['map'] else src).sink(consumer)

        async def producer():
            for b in batches:
                r = coll.emit(b)
                ev.append(('EMIT_RETURNED', r is not None and hasattr(r, '__await__')))
                if r is not None and hasattr(r, '__await__'):
                    await r
                ev.append(('EMIT_DONE', sum(1 for e in ev if e[0] == 'START') - sum(1 for e in ev if e[0] == 'END')))
        task = loop.create_task(producer())
        loop.drive(until_vt=case['n'] * (case['svc'] + 1) + 5, max_iters=100000)
    counters['W_wrapper_emits_checked'] = counters.get('W_wrapper_emits_checked', 0) + case['n']
    if any(e[0] == 'EMIT_RETURNED' and not e[1] for e in ev):
        viols.append({'key': 'C03:emit-returns-nothing-to-await@Streaming.emit', 'what': '%s(asynchronous stream).emit(batch) returned nothing awaitable: '
                      'the caller cannot wait for the consumers (nor learn of their failures)' % case['wrapper'], 'case': case})
    elif any(e[0] == 'EMIT_DONE' and e[1] > 0 for e in ev):
        viols.append({'key': 'C03:emit-done-with-open-consumer-call@Streaming.emit', 'what': 'the awaitable of %s.emit completed while a consumer call was open'
                      % case['wrapper'], 'case': case})

    class Res:
        pass
    r = Res()
    r.stop = 'idle'
    r.interesting = True
    return r, viols


def check_case(case, counters, sets):
    if case['family'] == 'W':
        return check_wrapper(case, counters, sets)
    if case['family'] == 'S':
        return check_sources(case, counters, sets)
    if case['family'] == 'T':
        return check_threaded(case, counters, sets)
    return check_async(case, counters, sets)


def run_shard(seed, tier, shard, nshards):
    rng = random.Random('%s-%d-%d-%s' % (PID, seed, shard, tier))
    out = {'evaluations': 0, 'keys': [], 'violations': [], 'samples': [], 'counters': {},
           'sets': {}, 'inconclusive': []}
    plan_n = n_cases(tier)
    for fam in ('A1', 'A2', 'B', 'S', 'W', 'T'):
        for k in range(plan_n[fam]):
            case = gen_case(rng, fam)
            r, viols = check_case(case, out['counters'], out['sets'])
            out['evaluations'] += 1
            if viols is None:
                out['inconclusive'].append('%s case %d: %s' % (fam, k, getattr(r, 'stop', 'watchdog')))
                continue
            out['counters']['cases_' + fam] = out['counters'].get('cases_' + fam, 0) + 1
            if r.interesting:
                out['keys'].append(progs.prog_key(case, None))
            out['violations'].extend(viols)
            if len(out['samples']) < 4 and r.interesting and not any(s['family'] == fam for s in out['samples']):
                out['samples'].append(case)
    return out


def replay(case):
    _, viols = check_case(case, {}, {})
    return viols or []
