"""Named, total, pure user functions for generated programs.

Every function is defined on every value a generated pipeline can carry (ints
and arbitrarily nested tuples/lists of ints), so that programs never fail for
typing reasons and a case is fully described by names in a JSON file.
"""


def fsum(x):
    if isinstance(x, (tuple, list)):
        return sum(fsum(y) for y in x)
    if isinstance(x, dict):
        return sum(fsum(v) for v in x.values())
    return int(x)


def inc(x):
    if isinstance(x, dict):
        return {k: inc(v) for k, v in x.items()}
    if isinstance(x, tuple):
        return tuple(inc(y) for y in x)
    if isinstance(x, list):
        return [inc(y) for y in x]
    return x + 1


def dbl(x):
    return fsum(x) * 2


def half(x):
    return fsum(x) // 2


def mod3(x):
    return fsum(x) % 3


def neg(x):
    return -fsum(x)


def wrap(x):
    return (x,)


def pair(x):
    return (x, fsum(x) + 1)


def triple(x):
    return (fsum(x), x, fsum(x) % 2)


def rep(x):
    """x -> tuple of length fsum(x) % 3 (possibly empty) -- feeds flatten"""
    return tuple(x for _ in range(abs(fsum(x)) % 3))


def size(x):
    return len(x) if isinstance(x, (tuple, list)) else 1


def ident(x):
    return x


def addk(x, k=0, m=1):
    """map with positional and keyword arguments"""
    return fsum(x) * m + k


def asdict(x):
    return {'a': fsum(x) % 3, 'b': x}


def astupdict(x):
    """a mapping whose keys are tuples (a table keyed by (row, column)): pluck(('r', 'c')) looks up ONE key"""
    return {('r', 'c'): fsum(x) % 5, ('r', 'd'): fsum(x), 'r': -1, 'c': -2}


def x_pair(x):
    return (x, x)


def x_nonefirst(x):
    return (None, x)


def x_totuple(x):
    return x if isinstance(x, tuple) and x else (x,)


def x_isnone(x):
    return x is None


def x_notnone(x):
    return x is not None


def x_type(x):
    return type(x).__name__


def x_repr(x):
    return repr(x)


# functions of the "exotic value" programs (vf/progs.py XGen): total on None, falsy values, strings and nested tuples.
# They are looked up through the same tables as the others; the ordinary generator draws from the STD_* name lists.
MAPS = {'astupdict': astupdict, 'x_pair': x_pair, 'x_nonefirst': x_nonefirst, 'x_totuple': x_totuple, 'addk': addk, 'asdict': asdict, 'fsum': fsum, 'inc': inc, 'dbl': dbl, 'half': half, 'mod3': mod3, 'neg': neg,
        'wrap': wrap, 'pair': pair, 'triple': triple, 'rep': rep, 'size': size, 'ident': ident}
# output kind of each map function: 'same' keeps the input kind
MAP_KIND = {'astupdict': 'opaque', 'x_pair': ('tup', 2), 'x_nonefirst': ('tup', 2), 'x_totuple': ('tup', 1), 'addk': 'int', 'asdict': 'dict', 'fsum': 'int', 'inc': 'same', 'dbl': 'int', 'half': 'int', 'mod3': 'int', 'neg': 'int',
            'wrap': ('tup', 1), 'pair': ('tup', 2), 'triple': ('tup', 3), 'rep': ('tup', None),
            'size': 'int', 'ident': 'same'}


def even(x):
    return fsum(x) % 2 == 0


def odd(x):
    return fsum(x) % 2 == 1


def not3(x):
    return fsum(x) % 3 != 0


def pos(x):
    return fsum(x) > 0


def small(x):
    return abs(fsum(x)) < 4


def gtk(x, k=0, strict=True):
    """filter with positional and keyword arguments"""
    return fsum(x) > k if strict else fsum(x) >= k


PREDS = {'x_isnone': x_isnone, 'x_notnone': x_notnone, 'gtk': gtk, 'even': even, 'odd': odd, 'not3': not3, 'pos': pos, 'small': small, 'none': None}


def add(s, x):
    return fsum(s) + fsum(x)


def cat(s, x):
    """state = tuple of the last 3 sums"""
    s = s if isinstance(s, tuple) else (fsum(s),)
    return (s + (fsum(x),))[-3:]


def mx(s, x):
    return max(fsum(s), fsum(x))


def add_rs(s, x):
    """returns_state=True: state is the running sum, result is (old, x)"""
    t = fsum(s) + fsum(x)
    return t, (fsum(s), fsum(x))


def cnt_rs(s, x):
    n = fsum(s) + 1
    return n, n * 100 + fsum(x) % 7


def x_last(s, x):
    return x


def x_last_rs(s, x):
    return x, (s, x)


ACCS = {'x_last': (x_last, False), 'x_last_rs': (x_last_rs, True), 'add': (add, False), 'cat': (cat, False), 'mx': (mx, False),
        'add_rs': (add_rs, True), 'cnt_rs': (cnt_rs, True)}


def sm(*a):
    return fsum(a)


def tup(*a):
    return tuple(a)


def first(*a):
    return a[0] if a else 0


STARS = {'sm': sm, 'tup': tup, 'first': first}

KEYS = {'x_type': x_type, 'x_repr': x_repr, 'x_isnone': x_isnone, 'fsum': fsum, 'mod2': lambda x: fsum(x) % 2, 'mod3': mod3, 'ident': ident,
        'size': size}


STD_MAPS = [k for k in MAPS if not k.startswith('x_')]
STD_PREDS = [k for k in PREDS if not k.startswith('x_')]
STD_ACCS = [k for k in ACCS if not k.startswith('x_')]


class InjectedFault(Exception):
    def __init__(self, uid):
        super().__init__(uid)
        self.uid = uid


class InjectedStop(StopIteration, InjectedFault):
    """the classic unguarded next() inside a user function"""
    def __init__(self, uid):
        StopIteration.__init__(self, uid)
        self.uid = uid


class InjectedKey(KeyError, InjectedFault):
    def __init__(self, uid):
        KeyError.__init__(self, uid)
        self.uid = uid


class InjectedValue(ValueError, InjectedFault):
    def __init__(self, uid):
        ValueError.__init__(self, uid)
        self.uid = uid


class InjectedEmptyGroup(InjectedFault):
    """an exception that is falsy: one that carries a collection of sub-errors and defines __len__"""
    def __len__(self):
        return 0


FAULT_CLASSES = {'exception': InjectedFault, 'stopiteration': InjectedStop, 'keyerror': InjectedKey,
                 'valueerror': InjectedValue, 'falsy': InjectedEmptyGroup}


class Faulty:
    """Wraps a user function; raises an injected fault on the listed call indices (counted per wrapped function
    instance).  Logs each invocation; a raised fault is also written to the recorder log (kind FAULT) together
    with the metadata identities of the enclosing update() call."""
    def __init__(self, name, fn, fail_calls=(), calls_log=None, exc_class=InjectedFault, log=None, defer=False):
        self.name = name
        self.fn = fn
        self.fail = set(fail_calls)
        self.n = 0
        self.calls_log = calls_log
        self.exc_class = exc_class
        self.log = log
        self.defer = defer          # fail inside the awaitable the function returns (asynchronous sink)
        self.__name__ = getattr(fn, '__name__', name)

    def _fault(self, i, cause, inherited):
        exc = self.exc_class((self.name, i))
        if self.log is not None:
            self.log.add('FAULT', self.name.split(':')[0], exc, cause, inherited)
        return exc

    def __call__(self, *a, **k):
        i = self.n
        self.n += 1
        if self.calls_log is not None:
            self.calls_log.append((self.name, i))
        cause, inherited = frozenset(), False
        if self.log is not None:
            cause = self.log.cause_stack[-1] if self.log.cause_stack else frozenset()
            last = self.log.ev[-1] if self.log.ev else None
            nid = self.name.split(':')[0]
            inherited = bool(last is not None and last[2] == 'IN' and last[3] == nid and not last[6])
            if inherited:
                inherited = (self.log.strip_stack[-1] if self.log.strip_stack else None) or False
        if self.defer:
            import asyncio
            self.pending_bodies = getattr(self, 'pending_bodies', {})
            self.pending_bodies[i] = len(self.log.ev) if self.log is not None else 0     # where in the log the call happened

            async def body():
                await asyncio.sleep(0)
                self.pending_bodies.pop(i, None)
                if i in self.fail:
                    raise self._fault(i, cause, inherited)
                return self.fn(*a, **k)
            return body()
        if i in self.fail:
            raise self._fault(i, cause, inherited)
        return self.fn(*a, **k)
