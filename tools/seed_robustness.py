#!/venv/bin/python
"""For every kept seeded change: does the quick tier of its property's check catch it for several VERIF_SEEDs?
Writes seeded/<id>/meta.json['quick_detection'] = {seed: exit code} and prints a summary.  Patches that no longer
apply to /repo HEAD (the code they touch was repaired since) are skipped and marked."""
import glob
import json
import os
import subprocess
import sys

SEEDS = [int(x) for x in (sys.argv[1:] or ['1', '2', '3'])]
rows = []
for d in sorted(glob.glob('/verif/seeded/*/')):
    tag = os.path.basename(d.rstrip('/'))
    meta_p = os.path.join(d, 'meta.json')
    if not os.path.exists(meta_p):
        continue
    meta = json.load(open(meta_p))
    pid = meta['property']
    wt = '/tmp/rob_%s' % tag
    subprocess.call(['git', '-C', '/repo', 'worktree', 'remove', '--force', wt], stderr=subprocess.DEVNULL)
    subprocess.check_call(['git', '-C', '/repo', 'worktree', 'add', '-q', wt, 'HEAD'])
    try:
        if subprocess.call(['git', '-C', wt, 'apply', os.path.join(d, 'patch.diff')], stderr=subprocess.DEVNULL) != 0:
            meta['quick_detection'] = 'patch no longer applies to HEAD'
            rows.append((tag, 'n/a'))
        else:
            # which check caught it at intake
            checks = [k.split()[0] for k, v in meta.get('checks', {}).items() if v['exit'] == 1] or [pid]
            chk = checks[0]
            res = {}
            for sd in SEEDS:
                env = dict(os.environ, STREAMZ_SRC=wt, VERIF_SEED=str(sd))
                r = subprocess.run(['./check', chk, 'quick'], cwd='/verif', env=env, capture_output=True, timeout=1500)
                res[str(sd)] = r.returncode
            meta['quick_detection'] = {'check': chk, 'exit_by_seed': res}
            rows.append((tag, '%s %d/%d' % (chk, sum(1 for v in res.values() if v == 1), len(res))))
        json.dump(meta, open(meta_p, 'w'), indent=1)
        print(rows[-1], flush=True)
    finally:
        subprocess.call(['git', '-C', '/repo', 'worktree', 'remove', '--force', wt])
subprocess.call(['git', '-C', '/verif', 'checkout', '--', 'evidence'])
subprocess.call('rm -f /verif/replays/*.json', shell=True)
