"""C20 -- a Dask-backed pipeline is observationally equivalent to the local one.

Twin programs: the same chain of operations (map, starmap, accumulate with/without explicit state, zip, buffer,
partition, sliding_window, union) once as a plain local pipeline and once with scatter() ... gather() around it, on
an in-process dask cluster (LocalCluster(processes=False, protocol='inproc://')) with an asynchronous Client on the
harness loop.  Task completion order is perturbed by seeded sleeps inside the mapped functions (they run on worker
threads).  Oracle: the sink sequences of the twins are equal (same order), and the instrumented reference counters
attached to the inputs end with the same counts and the same set of completion signals.
Real time is used, so verdicts are on sequences only; a watchdog firing is inconclusive.
"""
import asyncio
import random
import time

from .. import funcs as F
from .. import progs
from ..probes import ProbeRef

PID = 'C20'
LEVEL = 'exploration'
RULE = ('chains of 1-5 operations from {map, starmap, accumulate(+start, +returns_state, +with_state), zip with a second '
        'scattered entry, buffer, partition, sliding_window, union of two scattered entries} between scatter() and gather(); '
        '3-14 inputs; mapped functions sleep 0-4 ms depending on a seeded hash of their argument; non-trivial = >=3 results '
        'reached the sink and >=2 dask tasks were submitted; distinct by hash(case)')
REQUIRED = ['twin_sequences_compared', 'counter_pairs_compared']
ASSUMPTIONS = ['in-process cluster (threads); interleavings are whatever the perturbation produces, not controlled',
               'wall-clock watchdog => inconclusive']
INCONCLUSIVE_BUDGET = 0.1


def plan(tier):
    if tier == 'thorough':
        return {'shards': 16, 'timeout_s': 1700}
    return {'shards': 4, 'timeout_s': 280}


def n_cases(tier):
    return 500 if tier == 'thorough' else 40


DELAYS = {}
SETTLE = {}


def jitter(x):
    h = (hash(repr(x)) ^ DELAYS.get('salt', 0)) % 5
    if h:
        time.sleep(h / 1000.0)


def j_inc(x):
    jitter(x)
    return F.inc(x)


def j_dbl(x):
    jitter(x)
    return F.dbl(x)


def j_fsum(x):
    jitter(x)
    return F.fsum(x)


def j_pair(x):
    jitter(x)
    return F.pair(x)


def j_sm(*a):
    jitter(a)
    return F.fsum(a)


def j_add(s, x):
    jitter((s, x))
    return F.fsum(s) + F.fsum(x)


def j_add_rs(s, x):
    jitter((s, x))
    t = F.fsum(s) + F.fsum(x)
    return t, (F.fsum(s), F.fsum(x))


MAPF = {'inc': j_inc, 'dbl': j_dbl, 'fsum': j_fsum, 'pair': j_pair}


def gen_case(rng):
    ops = []
    kind = 'int'
    two = rng.random() < 0.35
    if two:
        ops.append([rng.choice(['zip', 'union'])])
        kind = 'tup' if ops[0][0] == 'zip' else 'int'
    for _ in range(rng.randrange(1, 5)):
        c = rng.choice(['map', 'map', 'accumulate', 'partition', 'sliding_window', 'buffer', 'starmap', 'diamond'])
        if c == 'map':
            f = rng.choice(['inc', 'dbl', 'fsum', 'pair'])
            ops.append(['map', f])
            kind = 'tup' if f == 'pair' else ('int' if f in ('dbl', 'fsum') else kind)
        elif c == 'diamond':
            # two branches of one node joined again by union: the tasks of the two branches finish in any order
            ops.append(['diamond', rng.choice(['inc', 'dbl']), rng.choice(['fsum', 'pair'])])
            kind = 'any'
        elif c == 'starmap':
            if kind != 'tup':
                continue
            ops.append(['starmap', 'sm'])
            kind = 'int'
        elif c == 'accumulate':
            v = rng.choice(['plain', 'start', 'returns_state', 'with_state', 'with_state_nostart', 'returns_state_with_state',
                            'start_positional', 'returns_state_positional'])
            ops.append(['accumulate', v])
            kind = 'tup' if v not in ('plain', 'start', 'start_positional') else 'int'
        elif c == 'partition':
            ops.append(['partition', rng.choice([1, 2, 3])])
            kind = 'tup'
        elif c == 'sliding_window':
            ops.append(['sliding_window', rng.choice([1, 2, 3]), rng.random() < 0.5])
            kind = 'tup'
        else:
            ops.append(['buffer', rng.choice([1, 2, 5])])
    if rng.random() < 0.12:
        ops.append(['rate_limit', rng.choice([0.03, 0.05])])
    if not two and rng.random() < 0.15:
        # per-element chains decoupled by a buffer in front of gather(): only the references the nodes pass on keep an input
        # from being signalled complete while its result is still on its way
        ops = [['map', 'pair'], ['starmap', 'sm']] if rng.random() < 0.6 else [['map', rng.choice(['inc', 'dbl'])]]
        if rng.random() < 0.5:
            ops.append(['map', 'inc'])
        ops.append(['buffer', rng.choice([2, 5])])
    n = rng.randrange(3, 15)
    inputs, lead = [], 0
    for _ in range(n):
        e = rng.randrange(2) if two else 0
        if two and abs(lead + (1 if e == 0 else -1)) > 8:
            e = 1 - e           # a zip holds its (sequentially awaiting) producer back once an input is 10 ahead: stay below
        lead += 1 if e == 0 else -1
        inputs.append([e, rng.randrange(6)])
    # the consumer behind gather(): plain function, or a coroutine function that takes longer for smaller values (so that
    # elements overtake each other in it if gather() does not wait for it)
    return {'ops': ops, 'inputs': inputs, 'salt': rng.randrange(1 << 16), 'two_entries': two,
            'sink': rng.choice(['sync', 'sync', 'coro', 'coro']),
            'fanout': rng.choice([1, 1, 1, 2, 3])}      # how many consumers hang off the end of the segment (off gather())


RL_TIMES = []


class Got(list):
    """results in the order in which the consumer finished with them; .called: in the order in which it was handed them;
    .timeline: consumer completions ('DONE') and completion signals of the inputs (('T', uid)) in the order they happened"""
    def __init__(self):
        super().__init__()
        self.called = []
        self.timeline = []
        self.after_emit = []        # how many consumer calls had finished when the k-th awaited emit returned
        self.times = []             # when each consumer call was made (real time)

    def append(self, x):
        self.timeline.append('DONE')
        list.append(self, x)

    def add(self, kind, uid, what, *rest):          # the recorder interface ProbeRef writes to
        if what == 'trigger':
            self.timeline.append(('T', uid))


def make_sink(case, got):
    if case.get('sink', 'sync') == 'sync':
        def plain(x):
            got.called.append(x)
            got.times.append(time.time())
            got.append(x)
        return plain

    def consume(x):
        got.called.append(x)        # the sequence of results AT the sink: the order of the calls
        got.times.append(time.time())

        async def body():
            await asyncio.sleep((4 - F.fsum(x) % 5) / 1000.0 if F.fsum(x) % 5 < 4 else 0)
            got.append(x)
        return body()
    return consume


def build(case, dask, sink):
    from streamz import Stream
    kw = {'asynchronous': True} if dask else {}
    a = Stream(**kw)
    b = Stream(**kw) if case['two_entries'] else None
    na = a.scatter() if dask else a
    nb = (b.scatter() if dask else b) if b is not None else None
    node = na
    for op in case['ops']:
        if op[0] == 'zip':
            node = na.zip(nb)
        elif op[0] == 'union':
            node = na.union(nb)
        elif op[0] == 'map':
            node = node.map(MAPF[op[1]])
        elif op[0] == 'diamond':
            node = node.map(MAPF[op[1]]).union(node.map(MAPF[op[2]]))
        elif op[0] == 'starmap':
            node = node.starmap(j_sm)
        elif op[0] == 'accumulate':
            if op[1] == 'plain':
                node = node.accumulate(j_add)
            elif op[1] == 'start':
                node = node.accumulate(j_add, start=0)
            elif op[1] == 'start_positional':
                node = node.accumulate(j_add, 5)                    # start given positionally, and not neutral for the function
            elif op[1] == 'returns_state_positional':
                node = node.accumulate(j_add_rs, 3, True)
            elif op[1] == 'returns_state':
                node = node.accumulate(j_add_rs, start=0, returns_state=True)
            elif op[1] == 'with_state_nostart':
                node = node.accumulate(j_add, with_state=True)
            elif op[1] == 'returns_state_with_state':
                node = node.accumulate(j_add_rs, start=0, returns_state=True, with_state=True)
            else:
                node = node.accumulate(j_add, start=0, with_state=True)
        elif op[0] == 'partition':
            node = node.partition(op[1])
        elif op[0] == 'sliding_window':
            node = node.sliding_window(op[1], return_partial=op[2])
        elif op[0] == 'buffer':
            node = node.buffer(op[1])
        elif op[0] == 'rate_limit':
            node = node.rate_limit(op[1])
            if dask:
                # when the node hands an element on (the sink behind gather() sees it a varying task latency later)
                a.rl_times = []

                def timed_emit(x, metadata=None, _orig=node._emit, _t=a.rl_times):
                    _t.append(time.time())
                    return _orig(x, metadata=metadata)
                node._emit = timed_emit
    if dask:
        node = node.gather()
    node.sink(sink)
    for _ in range(case.get('fanout', 1) - 1):
        node.sink(sink)             # further consumers on the same node: results arrive once per consumer
    return a, b


def _norm(x):
    if isinstance(x, (list, tuple)):
        return tuple(_norm(y) for y in x)
    return x


async def run_local(case):
    """the local twin, on the same loop (asynchronous=True so that buffer works without a thread)"""
    from tornado.ioloop import IOLoop
    got = Got()
    a, b = _build_local_async(case, make_sink(case, got))
    refs = []
    for k, (e, v) in enumerate(case['inputs']):
        ref = ProbeRef('l%d' % k, got, IOLoop.current())
        refs.append(ref)
        await (a if e == 0 else b).emit(v, metadata=[{'ref': ref}])
        got.after_emit.append(len(got))
    n = -1
    quiet = 0.05 + 3 * max([op[1] for op in case['ops'] if op[0] == 'rate_limit'] or [0])
    while n != len(got):            # buffers drain on the loop: wait until nothing more arrives (a rate limiter paces them)
        n = len(got)
        await asyncio.sleep(quiet)
    return got, refs


def _build_local_async(case, sink):
    from streamz import Stream
    a = Stream(asynchronous=True)
    b = Stream(asynchronous=True) if case['two_entries'] else None
    node = a
    for op in case['ops']:
        if op[0] == 'zip':
            node = a.zip(b)
        elif op[0] == 'union':
            node = a.union(b)
        elif op[0] == 'map':
            node = node.map(MAPF[op[1]])
        elif op[0] == 'diamond':
            node = node.map(MAPF[op[1]]).union(node.map(MAPF[op[2]]))
        elif op[0] == 'starmap':
            node = node.starmap(j_sm)
        elif op[0] == 'accumulate':
            if op[1] == 'plain':
                node = node.accumulate(j_add)
            elif op[1] == 'start':
                node = node.accumulate(j_add, start=0)
            elif op[1] == 'start_positional':
                node = node.accumulate(j_add, 5)                    # start given positionally, and not neutral for the function
            elif op[1] == 'returns_state_positional':
                node = node.accumulate(j_add_rs, 3, True)
            elif op[1] == 'returns_state':
                node = node.accumulate(j_add_rs, start=0, returns_state=True)
            elif op[1] == 'with_state_nostart':
                node = node.accumulate(j_add, with_state=True)
            elif op[1] == 'returns_state_with_state':
                node = node.accumulate(j_add_rs, start=0, returns_state=True, with_state=True)
            else:
                node = node.accumulate(j_add, start=0, with_state=True)
        elif op[0] == 'partition':
            node = node.partition(op[1])
        elif op[0] == 'sliding_window':
            node = node.sliding_window(op[1], return_partial=op[2])
        elif op[0] == 'buffer':
            node = node.buffer(op[1])
        elif op[0] == 'rate_limit':
            node = node.rate_limit(op[1])
    node.sink(sink)
    for _ in range(case.get('fanout', 1) - 1):
        node.sink(sink)
    return a, b


async def run_dask(case, expect_n, patient=False, expect_counts=None):
    from tornado.ioloop import IOLoop
    got = Got()
    a, b = build(case, True, make_sink(case, got))
    got.rl_times = getattr(a, 'rl_times', [])
    if got.rl_times is not None and any(op[0] == 'rate_limit' for op in case['ops']):
        # the first elements arrive as a burst on a line that has been idle for longer than the interval
        await asyncio.sleep(max(op[1] for op in case['ops'] if op[0] == 'rate_limit') + 0.03)
    refs = []
    for k, (e, v) in enumerate(case['inputs']):
        ref = ProbeRef('d%d' % k, got, IOLoop.current())
        refs.append(ref)
        await (a if e == 0 else b).emit(v, metadata=[{'ref': ref}])
        got.after_emit.append(len(got))
    t0 = t_last = time.time()
    n_last = len(got)
    while len(got) < expect_n and time.time() - t0 < 20 and (patient or time.time() - t_last < 4):
        await asyncio.sleep(0.01)
        if len(got) != n_last:          # still making progress
            n_last, t_last = len(got), time.time()
    await asyncio.sleep(0.1)       # anything extra would show up now
    if expect_counts is not None and len(got) == expect_n:
        # the releases behind the last result happen a few loop turns (and, on a loaded machine, an arbitrary amount of wall
        # clock) later: the verdict is on the counts the twin settles at, so give them up to 5 s to get there
        t1 = time.time()
        while [r.count for r in refs] != expect_counts and time.time() - t1 < 5:
            await asyncio.sleep(0.02)
        SETTLE['late'] = SETTLE.get('late', 0) + (1 if time.time() - t1 > 0.01 else 0)
    return got, refs


async def shard_main(seed, tier, shard, out):
    from distributed import Client, LocalCluster
    import streamz.sinks as ssinks
    rng = random.Random('%s-%d-%d-%s' % (PID, seed, shard, tier))
    cluster = await LocalCluster(processes=False, protocol='inproc://', asynchronous=True, dashboard_address=None,
                                 n_workers=1, threads_per_worker=4)
    client = await Client(cluster, asynchronous=True, set_as_default=True)
    C = out['counters']
    try:
        for k in range(n_cases(tier)):
            case = gen_case(rng)
            DELAYS['salt'] = case['salt']
            out['evaluations'] += 1
            stop_after = False
            try:
                lgot, lrefs = await asyncio.wait_for(run_local(case), 30)
                dgot, drefs = await asyncio.wait_for(run_dask(case, len(lgot), expect_counts=[r.count for r in lrefs]), 60)
                if len(dgot) < len(lgot):
                    # nothing arrived for 4 s: run the twin once more and give it the full 20 s before calling results lost
                    ssinks._global_sinks.clear()
                    C['patient_reruns'] = C.get('patient_reruns', 0) + 1
                    dgot, drefs = await asyncio.wait_for(run_dask(case, len(lgot), patient=True, expect_counts=[r.count for r in lrefs]), 60)
                    stop_after = len(dgot) < len(lgot)
            except asyncio.TimeoutError:
                out['inconclusive'].append('case %d: watchdog' % k)
                continue
            except Exception as ex:
                out['violations'].append({'key': 'C20:exception:%s' % type(ex).__name__, 'what': repr(ex), 'case': case})
                continue
            finally:
                ssinks._global_sinks.clear()
            C['twin_sequences_compared'] = C.get('twin_sequences_compared', 0) + 1
            C['dask_counters_settled_only_after_the_grace_period'] = SETTLE.get('late', 0)
            # order: that of the calls of the consumer (two coroutine bodies running at once finish in an order that depends on
            # when each was started); completeness: every call's body has finished
            ln, dn = [_norm(x) for x in lgot.called], [_norm(x) for x in dgot.called]
            if len(dgot) < len(lgot) and len(dn) >= len(ln):
                dn = dn[:len(dgot)]         # handed to the consumer, but its awaitable never finished: counts as missing
            if ln != dn:
                if sorted(map(repr, ln)) == sorted(map(repr, dn)):
                    key = 'C20:order-differs'
                elif len(dn) < len(ln):
                    key = 'C20:results-missing'
                else:
                    key = 'C20:results-differ'
                out['violations'].append({'key': key, 'what': 'local %s, dask %s' % (ln[:20], dn[:20]), 'case': case})
                if stop_after:
                    break           # a confirmed loss costs 24 s of waiting: one witness per shard is enough
            else:
                for lr, dr in zip(lrefs, drefs):
                    C['counter_pairs_compared'] = C.get('counter_pairs_compared', 0) + 1
                    if (lr.count, lr.triggers) != (dr.count, dr.triggers) or bool(lr.negative) != bool(dr.negative) or \
                            bool(lr.retain_after_trigger) != bool(dr.retain_after_trigger):
                        out['violations'].append({'key': 'C20:counters-differ',
                                                  'what': 'input %s: local count=%d signals=%d rise-after-zero=%s, dask count=%d signals=%d '
                                                          'rise-after-zero=%s; ops %s'
                                                  % (lr.uid, lr.count, lr.triggers, bool(lr.retain_after_trigger), dr.count, dr.triggers,
                                                     bool(dr.retain_after_trigger), case['ops']), 'case': case})
                        break
            if ln == dn and not case['two_entries'] and all(op[0] in ('map', 'starmap', 'buffer') for op in case['ops']):
                # one result per input, in order: the k-th input is complete when all consumers have finished with the k-th result
                fan, done = case.get('fanout', 1), 0
                for ev in dgot.timeline:
                    if ev == 'DONE':
                        done += 1
                    else:
                        k_in = int(ev[1][1:])
                        C['dask_signals_checked_against_consumer_completion'] = C.get('dask_signals_checked_against_consumer_completion', 0) + 1
                        if done < (k_in + 1) * fan:
                            out['violations'].append({'key': 'C20:signal-before-consumer-end@dask', 'case': case,
                                                      'what': 'dask twin: the completion signal of input %d was given when only %d of the '
                                                              'consumer calls had finished (%d needed); ops %s' % (k_in, done, (k_in + 1) * fan, case['ops'])})
                            break
            if ln == dn and not any(op[0] in ('buffer', 'rate_limit') for op in case['ops']):
                # nothing decouples the producer from the consumer: when an awaited emit returns, the consumer has finished with
                # what that input gave rise to -- as many calls as in the local twin at the same point
                C['awaited_emits_compared_for_completed_consumer_calls'] = C.get('awaited_emits_compared_for_completed_consumer_calls', 0) + len(lgot.after_emit)
                if lgot.after_emit != dgot.after_emit:
                    k_bad = next(i for i, (x_, y_) in enumerate(zip(lgot.after_emit, dgot.after_emit)) if x_ != y_)
                    out['violations'].append({'key': 'C20:emit-returned-before-the-consumer-had-finished@dask', 'case': case,
                                              'what': 'finished consumer calls after each awaited emit: local %s, dask %s (first difference at '
                                                      'input %d); ops %s' % (lgot.after_emit, dgot.after_emit, k_bad, case['ops'])})
            rl = [op[1] for op in case['ops'] if op[0] == 'rate_limit']
            RL_TIMES = getattr(dgot, 'rl_times', [])
            if rl and len(RL_TIMES) >= 2:
                # consecutive elements leave the Dask rate limiter at least an interval apart (a lower bound only: load can
                # stretch gaps, never shrink them)
                gaps = [b_ - a_ for a_, b_ in zip(RL_TIMES, RL_TIMES[1:])]
                C['dask_rate_limit_gaps_checked'] = C.get('dask_rate_limit_gaps_checked', 0) + len(gaps)
                if gaps and min(gaps) < rl[-1] - 0.008:
                    out['violations'].append({'key': 'C20:spacing@dask-rate_limit', 'case': case,
                                              'what': 'interval %s s, gaps between consecutive deliveries %s' % (rl[-1], [round(g_, 4) for g_ in gaps])})
            if len(lgot) >= 3:
                out['keys'].append(progs.prog_key(case, None))
            if case.get('sink') == 'coro':
                C['cases_with_asynchronous_consumer'] = C.get('cases_with_asynchronous_consumer', 0) + 1
            for op in case['ops']:
                out['sets'].setdefault('ops_seen', set()).add(op[0] + (':' + str(op[1]) if op[0] == 'accumulate' else ''))
            if len(out['samples']) < 2 and len(lgot) >= 3:
                out['samples'].append({'case': case, 'local': [repr(x) for x in ln[:10]], 'dask': [repr(x) for x in dn[:10]]})
    finally:
        await client.close()
        await cluster.close()


def run_shard(seed, tier, shard, nshards):
    out = {'evaluations': 0, 'keys': [], 'violations': [], 'samples': [], 'counters': {},
           'sets': {}, 'inconclusive': []}
    asyncio.run(shard_main(seed, tier, shard, out))
    return out


def replay(case):
    out = {'evaluations': 0, 'keys': [], 'violations': [], 'samples': [], 'counters': {}, 'sets': {}, 'inconclusive': []}

    async def one():
        from distributed import Client, LocalCluster
        cluster = await LocalCluster(processes=False, protocol='inproc://', asynchronous=True, dashboard_address=None,
                                     n_workers=1, threads_per_worker=4)
        client = await Client(cluster, asynchronous=True, set_as_default=True)
        try:
            DELAYS['salt'] = case['salt']
            lgot, lrefs = await run_local(case)
            dgot, drefs = await run_dask(case, len(lgot))
            ln, dn = [_norm(x) for x in lgot.called], [_norm(x) for x in dgot.called]
            if len(dgot) < len(lgot) and len(dn) >= len(ln):
                dn = dn[:len(dgot)]
            if ln != dn:
                out['violations'].append({'key': 'C20:results-differ', 'what': 'local %s dask %s' % (ln, dn), 'case': case})
            for lr, dr in zip(lrefs, drefs):
                if (lr.count, lr.triggers) != (dr.count, dr.triggers):
                    out['violations'].append({'key': 'C20:counters-differ', 'what': '%s %s %s %s' % (lr.count, lr.triggers, dr.count, dr.triggers), 'case': case})
                    break
        finally:
            await client.close()
            await cluster.close()
    asyncio.run(one())
    return out['violations']
