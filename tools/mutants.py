#!/venv/bin/python
"""Self-validation (DESIGN 1.10): realistic edits that break a property; each must be caught by the named checks.

usage: tools/mutants.py [name ...]     (no names: all).  Works on scratch worktrees under /tmp, never on /repo.
Writes mutants/<name>.diff and prints a table; exit 1 if a mutant is not caught by any of its checks."""
import os
import subprocess
import sys

M = [
    # name, file, old, new, checks expected to fire
    ('emit-reversed-children', 'streamz/core.py', "        for downstream in list(self.downstreams):\n            r = downstream.update(x, who=self, metadata=metadata)",
     "        for downstream in list(self.downstreams)[::-1]:\n            r = downstream.update(x, who=self, metadata=metadata)", ['C01']),
    ('partition-drops-key-none', 'streamz/core.py', "        if len(buffer) == self.n:\n            if self._timeout is not None and self.n > 1:",
     "        if len(buffer) >= self.n and self.n > 1 or len(buffer) > self.n:\n            if self._timeout is not None and self.n > 1:", ['C01', 'C08']),
    ('sliding-window-pop-right', 'streamz/core.py', "                completed = self.metadata_buffer.popleft()", "                completed = self.metadata_buffer.pop()", ['C05', 'C10']),
    ('zip-md-order', 'streamz/core.py', "            md = [m for ml in md for m in ml]\n            ret = self._emit(tup, md)", "            md = [m for ml in md[::-1] for m in ml]\n            ret = self._emit(tup, md)", ['C10']),
    ('unique-lru-off-by-one', 'streamz/core.py', "                del self.seen[self.maxsize:]", "                del self.seen[self.maxsize + 1:]", ['C01']),
    ('accumulate-state-before-func', 'streamz/core.py', "            try:\n                result = self.func(self.state, x, **self.kwargs)\n            except Exception as e:\n                logger.exception(e)\n                raise\n            if self.returns_state:",
     "            prev, self.state = self.state, x\n            try:\n                result = self.func(prev, x, **self.kwargs)\n            except Exception as e:\n                logger.exception(e)\n                raise\n            if self.returns_state:", ['C16']),
    ('buffer-release-before-emit', 'streamz/core.py', "            x, metadata = yield self.queue.get()\n            yield self._emit(x, metadata=metadata)\n            self._release_refs(metadata)\n\n\n@Stream.register_api()\nclass zip",
     "            x, metadata = yield self.queue.get()\n            self._release_refs(metadata)\n            yield self._emit(x, metadata=metadata)\n\n\n@Stream.register_api()\nclass zip", ['C04']),
    ('delay-no-retain', 'streamz/core.py', "    def update(self, x, who=None, metadata=None):\n        self._retain_refs(metadata)\n        return self.queue.put((x, metadata))\n\n\n@Stream.register_api()\nclass rate_limit",
     "    def update(self, x, who=None, metadata=None):\n        return self.queue.put((x, metadata))\n\n\n@Stream.register_api()\nclass rate_limit", ['C04', 'C05']),
    ('partition-timer-not-cancelled', 'streamz/core.py', "                self._callbacks[key].cancel()", "                pass", ['C08', 'C02']),
    ('timed-window-clears-after-emit', 'streamz/core.py', "            L, self._buffer = self._buffer, []\n            metadata, self.metadata_buffer = self.metadata_buffer, []\n            m = [m for ml in metadata for m in ml]\n            self.last = gen.convert_yielded(self._emit(L, m))\n            self._release_refs(m)\n            yield self.last\n",
     "            L = self._buffer\n            metadata, self.metadata_buffer = self.metadata_buffer, []\n            m = [m for ml in metadata for m in ml]\n            self.last = gen.convert_yielded(self._emit(list(L), m))\n            self._release_refs(m)\n            yield self.last\n            self._buffer = []\n", ['C02', 'C08']),
    # (rate-limit-slot-from-now / rate-limit-no-idle-reset were dropped: since repair 6ea84d6 an element also keeps the interval to
    # the time its predecessor actually went through, which makes slips in the slot arithmetic unobservable)
    ('rate-limit-does-not-wait-for-predecessor', 'streamz/core.py', "            if before is not None and not before.done():\n                yield before\n", "", ['C13']),
    ('rate-limit-interval-rounded-to-ms', 'streamz/core.py', "        self.interval = convert_interval(interval)\n        self.next = 0\n        self._last = None", "        self.interval = round(convert_interval(interval), 3)\n        self.next = 0\n        self._last = None", ['C13']),
    ('rate-limit-no-late-check', 'streamz/core.py', "                if late > 0:\n                    yield gen.sleep(late)\n", "                pass\n", ['C13']),
    ('latest-no-clear', 'streamz/core.py', "            [x] = self.next\n            self.next = []\n", "            [x] = self.next\n", ['C14']),
    ('kafka-commit-offset', 'streamz/sources.py', "            _tp = ck.TopicPartition(topic, part_no, offset + 1)", "            _tp = ck.TopicPartition(topic, part_no, offset)", ['C09']),
    ('kafka-positions-skip', 'streamz/sources.py', "                    self.positions[partition] = high\n            self.consumer_params", "                    self.positions[partition] = high + (1 if high - lowest == self.max_batch_size else 0)\n            self.consumer_params", ['C09']),
    ('textfile-drops-empty-records', 'streamz/sources.py', "                for part in parts:\n                    await asyncio.gather(*self._emit(part + self.delimiter))",
     "                for part in parts:\n                    if part or len(self.delimiter) == 1:\n                        await asyncio.gather(*self._emit(part + self.delimiter))", ['C17']),
    ('filenames-unsorted', 'streamz/sources.py', "        for fn in sorted(new):", "        for fn in new:", ['C17']),
    ('source-double-loop', 'streamz/sources.py', "            if not self._running:\n                # otherwise the previous run() has not noticed", "            if True:\n                # otherwise the previous run() has not noticed", ['C18']),
    ('kafka-source-double-loop', 'streamz/sources.py', "            # connection with broker to fetch oauth token for kafka\n            self.consumer.poll(timeout=1)\n            self.consumer.get_watermark_offsets(tp)\n            if not self._running:\n", "            # connection with broker to fetch oauth token for kafka\n            self.consumer.poll(timeout=1)\n            self.consumer.get_watermark_offsets(tp)\n            if True:\n", ['C18']),
    ('ensure-io-loop-override', 'streamz/core.py', "        if ensure_io_loop and not self.loop and self.asynchronous is None:", "        if ensure_io_loop and not self.loop:", ['C19']),
    ('combine-latest-remove', 'streamz/core.py', "        self.missing.discard(upstream)", "        self.missing.remove(upstream)", ['C15']),
    ('disconnect-one-sided', 'streamz/core.py', "        self._remove_downstream(downstream)\n\n        downstream._remove_upstream(self)", "        self._remove_downstream(downstream)\n", ['C15']),
    ('dask-accumulate-state', 'streamz/dask.py', "                state = result\n            self.state = state\n            if self.with_state:\n                return self._emit((self.state, result), metadata=metadata)",
     "                state = result\n            if self.with_state:\n                self.state = state\n                return self._emit((self.state, result), metadata=metadata)\n            self.state = x", ['C20']),
    ('gather-no-retain', 'streamz/dask.py', "        self._retain_refs(metadata)\n        # Several updates can be under way", "        # Several updates can be under way", ['C20', 'C04']),
    ('map-async-release-on-failure', 'streamz/core.py', "                    if results:\n                        await asyncio.gather(*results)\n                    self._release_refs(metadata)", "                    if results:\n                        await asyncio.gather(*results)\n                self._release_refs(metadata)", ['C04']),
    ('slice-drops-awaitables', 'streamz/core.py', "            result = self._emit(x, metadata=metadata)\n        else:\n            result = None", "            self._emit(x, metadata=metadata)\n            result = None\n        else:\n            result = None", ['C03', 'C16']),
    ('df-diff-iloc-offbyone', 'streamz/dataframe/aggregations.py', "        n = sum(map(len, dfs)) - window\n", "        n = sum(map(len, dfs)) - window - 1\n", ['C07']),
    ('df-diff-loc-no-ns', 'streamz/dataframe/aggregations.py', "        mn = mx - pd.Timedelta(window) + pd.Timedelta('1ns')\n", "        mn = mx - pd.Timedelta(window)\n", ['C07']),
    ('df-mean-on-old-count', 'streamz/dataframe/aggregations.py', "            totals = totals - old.sum()\n            counts = counts - old.count()\n        return (totals, counts), self._mean(totals, counts)", "            totals = totals - old.sum()\n            counts = counts - len(old)\n        return (totals, counts), self._mean(totals, counts)", ['C07']),
    ('df-cumulative-no-ffill', 'streamz/dataframe/core.py', "    new_state = result.ffill().iloc[-1:]\n", "    new_state = result.iloc[-1:]\n", ['C11']),
    ('df-cumulative-drops-first', 'streamz/dataframe/core.py', "    if len(state):\n        result = result[1:]\n    return new_state, result", "    result = result[1:]\n    return new_state, result", ['C11']),
    ('map-drops-kwargs', 'streamz/core.py', "            result = self.func(x, *self.args, **self.kwargs)\n        except Exception as e:\n            logger.exception(e)\n            raise\n        else:\n            return self._emit(result, metadata=metadata)\n\n\n@Stream.register_api()\nclass map_async",
     "            result = self.func(x, *self.args)\n        except Exception as e:\n            logger.exception(e)\n            raise\n        else:\n            return self._emit(result, metadata=metadata)\n\n\n@Stream.register_api()\nclass map_async", ['C01']),
    ('filter-ignores-args', 'streamz/core.py', "        if self.predicate(x, *self.args, **self.kwargs):", "        if self.predicate(x, **self.kwargs):", ['C01']),
    ('pluck-list-order', 'streamz/core.py', "            return self._emit(tuple([x[ind] for ind in self.pick]),", "            return self._emit(tuple([x[ind] for ind in sorted(self.pick, key=str)]),", ['C01']),
    ('partition-key-nocall', 'streamz/core.py', "        if callable(self._key):\n            return self._key(x)\n        return x[self._key]", "        if callable(self._key):\n            return self._key(x)\n        return self._key", ['C01']),
    ('zip-maxsize-off', 'streamz/core.py', "        elif len(L) > self.maxsize:", "        elif len(L) > self.maxsize + 1:", ['C03']),
    ('textfile-source-no-await', 'streamz/sources.py', "                for part in parts:\n                    await asyncio.gather(*self._emit(part + self.delimiter))",
     "                for part in parts:\n                    asyncio.gather(*self._emit(part + self.delimiter))", ['C03']),
    ('filenames-source-no-await', 'streamz/sources.py', "            self.seen.add(fn)\n            await asyncio.gather(*self._emit(fn))", "            self.seen.add(fn)\n            asyncio.gather(*self._emit(fn))", ['C03']),
    ('iterable-source-no-await', 'streamz/sources.py', "            await asyncio.gather(*self._emit(x))\n        self.stopped = True", "            asyncio.gather(*self._emit(x))\n        self.stopped = True", ['C03', 'C18']),
    ('kafka-batch-past-high', 'streamz/sources.py', "                if high >= msg.offset():\n                    if keys:", "                if True:\n                    if keys:", ['C09']),
    ('zip-late-input-bounded-deque', 'streamz/core.py', "        self.buffers[upstream] = deque()\n        super(zip, self)._add_upstream(upstream)", "        self.buffers[upstream] = deque(maxlen=self.maxsize)\n        super(zip, self)._add_upstream(upstream)", ['C15']),
    ('interval-string-whole-seconds', 'streamz/core.py', "        interval = pd.Timedelta(interval).total_seconds()", "        interval = pd.Timedelta(interval).seconds", ['C13']),
    ('interval-numpy-int-as-nanoseconds', 'streamz/core.py', "        interval = interval.item()\n", "        import pandas as pd\n        interval = pd.Timedelta(interval).total_seconds()\n", ['C13']),
    ('kafka-default-reset-on-callers-dict', 'streamz/sources.py', "            self.consumer_params['auto.offset.reset'] = 'latest'", "            consumer_params['auto.offset.reset'] = 'latest'", ['C09']),
    ('kafka-new-partitions-ignore-committed', 'streamz/sources.py', "                        self.positions.extend(tp.offset for tp in committed)", "                        self.positions.extend(-1001 for tp in committed)", ['C09']),
    ('connect-does-not-inform-upstream-side', 'streamz/core.py', "        for node in (self, downstream):\n            if loops:", "        for node in (downstream,):\n            if loops:", ['C19']),
    # connect-checks-end-nodes-only: equivalent since a7cb0c5/83809ae (every node of a pipeline now knows its loop and mode)
    ('gather-no-wait-downstream', 'streamz/dask.py', "        result2 = yield self._emit(result, metadata=metadata)", "        result2 = self._emit(result, metadata=metadata)", ['C20']),
    ('map-async-stop-unconditional', 'streamz/core.py', "        if self.work_task:\n            stop_work, _ = self.work_task\n            stop_work.set()\n            self.work_task = None\n        super().stop()", "        stop_work, _ = self.work_task\n        stop_work.set()\n        self.work_task = None\n        super().stop()", ['C18']),
    ('kafka-batch-skips-empty-values', 'streamz/sources.py', "            if msg is not None and msg.error() is None:\n                if high >= msg.offset():", "            if msg and msg.value() and msg.error() is None:\n                if high >= msg.offset():", ['C09']),
    ('kafka-reset-aliases-unknown', 'streamz/sources.py', "in ('latest', 'largest', 'end'):", "in ('latest',):", ['C09']),
    ('kafka-latest-resolved-in-first-round-only', 'streamz/sources.py', "            for part in out:\n                yield self.loop.add_callback(checkpoint_emit, part)", "            start_at_end = set()\n            for part in out:\n                yield self.loop.add_callback(checkpoint_emit, part)", ['C09']),
    ('periodic-dataframe-double-loop', 'streamz/dataframe/core.py', "            if not self._polling[0]:", "            if True:", ['C18']),
    ('http-server-handler-ignores-stop', 'streamz/sources.py', "                if self.source.stopped:\n                    # stop() makes the server", "                if False:\n                    # stop() makes the server", ['C18']),
    ('sync-drops-falsy-exception', 'streamz/core.py', "    if error[0] is not None:\n        raise error[0]", "    if error[0]:\n        raise error[0]", ['C16']),
    ('textfile-seeks-to-end-at-every-start', 'streamz/sources.py', "        if self.stopped:\n            self.stopped = False\n            self.started = True\n            if not self._running:\n                # otherwise the previous run()", "        if getattr(self, 'from_end', False) and hasattr(self, 'file'):\n            self.file.seek(0, 2)\n        if self.stopped:\n            self.stopped = False\n            self.started = True\n            if not self._running:\n                # otherwise the previous run()", ['C18']),
    ('collect-flush-stays-on-callers-thread', 'streamz/core.py', "            if not on_loop:\n                # called from the user's thread on a blocking pipeline", "            if False:\n                # called from the user's thread on a blocking pipeline", ['C05']),
    ('map-async-new-worker-does-not-wait-for-old', 'streamz/core.py', "        if previous is not None and not previous.done():\n", "        if False:\n", ['C02']),
    # map-async-worker-blind-to-stop-while-idle (wait for the job only): equivalent -- the stale worker takes one more job and
    # exits, the new worker waits for it, order is kept
    ('textfile-named-file-translates-newlines', 'streamz/sources.py', "            f = open(f, newline='')", "            f = open(f)", ['C17']),
    ('df-diff-loc-evicts-row-at-bound', 'streamz/dataframe/aggregations.py', "            o = dfs[0].loc[:mn - pd.Timedelta('1ns')]", "            o = dfs[0].loc[:mn]", ['C07']),
    ('df-groupby-mean-residue-over-zero', 'streamz/dataframe/aggregations.py', "        return (totals / counts).where(counts > 0)", "        return totals / counts", ['C07']),
    ('window-reset-index-drops-state', 'streamz/dataframe/core.py', "        return type(self)(self.root.reset_index(), n=self.n, value=self.value,\n                          with_state=self.with_state, start=self.start)", "        return type(self)(self.root.reset_index(), n=self.n, value=self.value)", ['C12']),
    ('collect-flush-releases-live-cache', 'streamz/core.py', "        self.cache.clear()\n        self.metadata_cache.clear()\n        ret = self._emit(out, metadata)\n        self._release_refs(metadata)", "        self.cache.clear()\n        ret = self._emit(out, metadata)\n        self._release_refs(self.metadata_cache)\n        self.metadata_cache.clear()", ['C04', 'C05']),
    ('var-squares-in-own-dtype', 'streamz/dataframe/aggregations.py', "    return (x.astype('float64') ** 2).sum()", "    return (x ** 2).sum()", ['C06', 'C07']),
    ('from-iterable-takes-item-before-looking', 'streamz/sources.py', "        while not self.stopped:\n            try:\n                x = next(iterator)\n            except StopIteration:\n                break\n            await asyncio.gather(*self._emit(x))", "        for x in iterator:\n            if self.stopped:\n                break\n            await asyncio.gather(*self._emit(x))\n            if self.stopped:\n                break", ['C18']),
    ('source-running-flag-not-lowered-on-failure', 'streamz/sources.py', "        try:\n            result = self.run()\n            if isawaitable(result):\n                await result\n        finally:\n            self._running = False", "        result = self.run()\n        if isawaitable(result):\n            await result\n        self._running = False", ['C18']),
    ('collect-flush-awaitable-only-on-own-loop', 'streamz/core.py', "            try:\n                asyncio.get_running_loop()\n            except RuntimeError:\n                return\n", "            try:\n                if asyncio.get_running_loop() is not getattr(self.loop, 'asyncio_loop', None):\n                    return\n            except RuntimeError:\n                return\n", ['C05']),
]


def run(name, f, old, new, checks):
    wt = '/tmp/mut_%s_%d' % (name, os.getpid())
    subprocess.check_call(['git', '-C', '/repo', 'worktree', 'add', '-q', wt, 'HEAD'])
    try:
        p = os.path.join(wt, f)
        s = open(p).read()
        if s.count(old) != 1:
            return name, 'ANCHOR NOT FOUND (%d)' % s.count(old), False
        open(p, 'w').write(s.replace(old, new))
        diff = subprocess.check_output(['git', '-C', wt, 'diff']).decode()
        open('/verif/mutants/%s.diff' % name, 'w').write(diff)
        res = []
        caught = False
        for c in checks:
            env = dict(os.environ, STREAMZ_SRC=wt, VERIF_SEED='0')
            r = subprocess.run(['./check', c, 'quick'], cwd='/verif', env=env, capture_output=True, timeout=900)
            out = r.stdout.decode()
            keys = sorted(set(l.split()[1] for l in out.splitlines() if l.startswith('  violation ')))
            res.append('%s rc=%d %s' % (c, r.returncode, ' '.join(keys)[:160]))
            caught = caught or r.returncode == 1
        return name, ' | '.join(res), caught
    finally:
        subprocess.call(['git', '-C', '/repo', 'worktree', 'remove', '--force', wt])


if __name__ == '__main__':
    sel = sys.argv[1:]
    bad = 0
    for m in M:
        if sel and m[0] not in sel:
            continue
        name, res, caught = run(*m)
        print('%-32s %s  %s' % (name, 'CAUGHT' if caught else 'MISSED', res), flush=True)
        bad += 0 if caught else 1
    subprocess.call(['git', '-C', '/verif', 'checkout', '--', 'evidence'])
    sys.exit(1 if bad else 0)
