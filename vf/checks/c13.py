"""C13 -- rate_limit spaces emissions by at least the interval and keeps order;
delay preserves order and count.

Virtual-time runs of source(s) -> [map] -> rate_limit(i) | delay(i) -> [map] -> sink with 1-4 producers (awaiting
or not), idle gaps, bursts, slow and instant consumers.  Oracle on the recorded history of the node:
 spacing   consecutive emissions of rate_limit are >= i apart (virtual time, 1e-9 slack);
 order     emissions are the arrivals, same order, each exactly once after the bounded settle;
 no-delay  an arrival that finds nothing waiting and the previous emission >= i old is emitted at its arrival instant.
"""
import random

from .. import aprogs, asyncrun, progs

PID = 'C13'
LEVEL = 'exploration'
RULE = ('chains source(s)->[map]->rate_limit|delay (1-2 of them)->[map]->sink; intervals {.25,.5,1,2}; 1-4 producers, '
        'gaps {0,.25,.5,1,3} (bursts, steady, mixed), awaiting or not; consumers sync/coroutine/Future with service '
        'times {0..2}; non-trivial = >=3 elements through a limiter with at least one forced wait and (rate_limit) at '
        'least one idle arrival; distinct by hash(case)')
REQUIRED = ['spacing_gaps_checked', 'order_sequences_checked', 'idle_arrivals_checked']
ASSUMPTIONS = ['virtual clock shared by streamz.core.time, tornado and asyncio timers']
INCONCLUSIVE_BUDGET = 0.03
EPS = 1e-9


def plan(tier):
    if tier == 'thorough':
        return {'shards': 16, 'timeout_s': 1700}
    return {'shards': 8, 'timeout_s': 280}


def n_cases(tier):
    return 60000 if tier == 'thorough' else 600


def one_case(rng, tier):
    nodes = [{'id': 'n0', 'op': 'source', 'ups': []}]
    entries = ['n0']
    last = 'n0'
    if rng.random() < 0.25:
        nodes.append({'id': 'n0b', 'op': 'source', 'ups': []})
        nodes.append({'id': 'u', 'op': 'union', 'ups': ['n0', 'n0b']})
        entries.append('n0b')
        last = 'u'
    k = 0

    def add(spec):
        nonlocal last, k
        spec['id'] = 'x%d' % k
        k += 1
        spec['ups'] = [last]
        nodes.append(spec)
        last = spec['id']
    if rng.random() < 0.3:
        add({'op': 'map', 'f': 'inc'})
    for _ in range(rng.choice([1, 1, 1, 2])):
        add({'op': rng.choice(['rate_limit', 'rate_limit', 'delay']), 'interval': rng.choice([0, 0.25, 0.5, 0.5, 1.0, 1.0, 2.0]),
             'ival_str': rng.random() < 0.25})        # '250ms' / '1s' instead of the number
        if rng.random() < 0.08:
            # intervals that are not a whole number of milliseconds (computed from a rate)
            nodes[-1]['interval'] = rng.choice([1 / 3, 1 / 30, 0.0004])
            nodes[-1]['ival_str'] = False
        elif rng.random() < 0.06:
            # long intervals in the string forms the API accepts ('90min', '1D', '25h'); virtual time makes them free
            nodes[-1]['interval'] = rng.choice([5400.0, 86400.0, 90000.0])
            nodes[-1]['ival_str'] = True
        elif rng.random() < 0.1:
            # the interval as a numpy scalar (what an array computation hands over)
            iv = nodes[-1]['interval']
            nodes[-1]['ival_str'] = False
            nodes[-1]['ival_np'] = rng.choice(['int64', 'int32'] if iv == int(iv) and iv > 0 else ['float64', 'float64', 'float32'])
        if rng.random() < 0.3:
            add({'op': 'map', 'f': 'ident'})
    g = aprogs.AGen(rng)
    nodes.append({'id': 'sk', 'op': 'sink', 'ups': [last], 'kind': rng.choice(['sync', 'coro', 'future', 'tornado', 'awaitable']), 'svc': g._svc()})
    if rng.random() < 0.15:
        # a consumer that blocks the loop thread for a while (a plain function doing time.sleep / real work)
        nodes[-1]['kind'] = 'sync_block'
        nodes[-1]['svc'] = [rng.choice([0, 0, 0.25, 0.75, 1.5, 3.0]) for _ in range(rng.choice([2, 3, 4]))]
    prog = {'nodes': nodes, 'extra_edges': []}
    np_ = rng.choice([1, 1, 2, 3, 4])
    prods = []
    for p in range(np_):
        style = rng.choice(['burst', 'steady', 'mixed', 'mixed'])
        steady = rng.choice([0.25, 0.5, 1.0, 3.0])
        items = []
        for _ in range(rng.randrange(1, 9)):
            gap = (0 if rng.random() < 0.8 else rng.choice(aprogs.GAP_GRID)) if style == 'burst' else \
                steady if style == 'steady' else rng.choice(aprogs.GAP_GRID + [3.0, 5.0])
            items.append([gap, rng.choice(entries), rng.randrange(6), 1])
        prods.append(items)
    case = {'prog': prog, 'producers': prods, 'awaiting': rng.random() < 0.6}
    if rng.random() < 0.3:
        case['t0'] = 1.7e9          # the clock reads like a real one (seconds since 1970), not like a stopwatch
    return case


def check_case(case, counters, sets):
    ar = asyncrun.run_async(case)
    if ar.stop in ('iter-cap', 'vt-cap', 'watchdog'):
        return ar, None
    viols, seen = [], set()

    def add(key, what):
        if key not in seen:
            seen.add(key)
            viols.append({'key': key, 'what': what, 'case': case})
    for name, msg, exc in ar.errors:
        add('C13:loop-exception:%s' % (type(exc).__name__ if exc is not None else 'log'), '%s %s %r' % (name, msg[:200], exc))
    for i, exc in ar.emit_exc.items():
        add('C13:emit-raised:%s' % type(exc).__name__, 'emit #%d raised %r' % (i, exc))
    ins, outs = asyncrun.by_node(ar.log)
    ar.interesting = False
    # a clock that reads 1.7e9 resolves 2.4e-7 s: differences of time stamps carry that much rounding
    EPS = 1e-6 if case.get('t0') else 1e-9
    for spec in case['prog']['nodes']:
        if spec['op'] not in ('rate_limit', 'delay'):
            continue
        nid, T = spec['id'], spec['interval']
        I, O = ins.get(nid, []), outs.get(nid, [])
        counters['order_sequences_checked'] = counters.get('order_sequences_checked', 0) + 1
        a = [(asyncrun._v(e[5]), asyncrun._mdids(e[6])) for e in I]
        b = [(asyncrun._v(e[4]), asyncrun._mdids(e[5])) for e in O]
        if a != b:
            if sorted(map(repr, a)) == sorted(map(repr, b)):
                add('C13:reordered@%s' % spec['op'], '%s(%s): arrivals %s, emissions %s' % (spec['op'], T, [x for x, _ in a][:30], [x for x, _ in b][:30]))
            elif len(b) < len(a):
                add('C13:lost@%s' % spec['op'], '%s(%s): %d arrivals, %d emissions after settle: %s vs %s'
                    % (spec['op'], T, len(a), len(b), [x for x, _ in a][:30], [x for x, _ in b][:30]))
            else:
                add('C13:duplicated-or-altered@%s' % spec['op'], '%s(%s): arrivals %s, emissions %s' % (spec['op'], T, [x for x, _ in a][:30], [x for x, _ in b][:30]))
            continue
        if spec['op'] != 'rate_limit':
            ar.interesting = ar.interesting or len(O) >= 3
            continue
        waited = False
        for p, q in zip(O, O[1:]):
            counters['spacing_gaps_checked'] = counters.get('spacing_gaps_checked', 0) + 1
            if q[1] - p[1] < T - EPS:
                add('C13:spacing@rate_limit', 'rate_limit(%s): emissions at t=%s and t=%s are %s apart'
                    % (T, p[1], q[1], q[1] - p[1]))
        idle_seen = False
        for k, e in enumerate(I):
            if O[k][1] > e[1] + EPS:
                waited = True
            prev_all_out = all(O[j][1] <= e[1] - T + EPS for j in range(k))
            if prev_all_out:
                counters['idle_arrivals_checked'] = counters.get('idle_arrivals_checked', 0) + 1
                idle_seen = idle_seen or k > 0
                if O[k][1] > e[1] + EPS:
                    add('C13:delayed-although-idle@rate_limit',
                        'rate_limit(%s): element %r arrived at t=%s, every earlier element had been emitted by t=%s, '
                        'yet it was emitted only at t=%s' % (T, e[5], e[1], max([O[j][1] for j in range(k)] + [0]), O[k][1]))
        ar.interesting = ar.interesting or (len(O) >= 3 and waited and idle_seen)
    sets.setdefault('interleaving_signatures', set()).add(asyncrun.signature(ar.log))
    counters['events_observed'] = counters.get('events_observed', 0) + len(ar.log.ev)
    return ar, viols


def run_shard(seed, tier, shard, nshards):
    rng = random.Random('%s-%d-%d-%s' % (PID, seed, shard, tier))
    out = {'evaluations': 0, 'keys': [], 'violations': [], 'samples': [], 'counters': {},
           'sets': {}, 'inconclusive': []}
    for k in range(n_cases(tier)):
        case = one_case(rng, tier)
        ar, viols = check_case(case, out['counters'], out['sets'])
        out['evaluations'] += 1
        if viols is None:
            out['inconclusive'].append('case %d: %s' % (k, ar.stop))
            continue
        if ar.interesting:
            out['keys'].append(progs.prog_key(case, None))
        out['violations'].extend(viols)
        if len(out['samples']) < 2 and ar.interesting:
            ins, outs = asyncrun.by_node(ar.log)
            lim = [s for s in case['prog']['nodes'] if s['op'] in ('rate_limit', 'delay')][0]
            out['samples'].append({'case': case, 'node': lim,
                                   'arrival_times': [round(e[1], 3) for e in ins.get(lim['id'], [])],
                                   'emission_times': [round(e[1], 3) for e in outs.get(lim['id'], [])]})
    return out


def replay(case):
    _, viols = check_case(case, {}, {})
    return viols or []
