"""E1 -- virtual-time asyncio event loop.

The real streamz code runs on it unmodified (tornado's IOLoop wraps it).  The
clock only moves when nothing is ready to run, so a run is a deterministic
function of the program: schedule diversity comes from the instants the
harness chooses for arrivals and completions, never from the machine.
"""
import asyncio
import contextlib
import gc
import heapq
import logging
import warnings

SPIN_LIMIT = 60      # iterations with a busy ready-queue and a frozen clock


class _Collector(logging.Handler):
    def __init__(self):
        super().__init__(level=logging.WARNING)
        self.records = []
        self.active = True

    def emit(self, record):
        if not self.active:
            return
        msg = record.getMessage()
        if 'was destroyed but it is pending' in msg:
            return
        exc = record.exc_info[1] if record.exc_info else None
        self.records.append((record.name, msg, exc))


class VLoop(asyncio.SelectorEventLoop):
    def __init__(self):
        super().__init__()
        self._vt = 0.0
        self.iters = 0
        self.spin_jumps = 0
        self._stall = 0
        self._iter_limit = None
        self._vt_limit = None
        self.stop_reason = None
        self.loop_errors = []          # from call_exception_handler
        self.set_exception_handler(self._on_exception)

    def _on_exception(self, loop, context):
        msg = context.get('message', '')
        if 'was destroyed but it is pending' in msg:
            return
        self.loop_errors.append((msg, context.get('exception')))

    def time(self):
        return self._vt

    def _next_timer(self):
        sched = self._scheduled
        while sched and sched[0]._cancelled:
            self._timer_cancelled_count -= 1
            h = heapq.heappop(sched)
            h._scheduled = False
        return sched[0]._when if sched else None

    def _run_once(self):
        self.iters += 1
        nxt = self._next_timer()
        if self._iter_limit is not None and self.iters >= self._iter_limit:
            self.stop_reason = 'iter-cap'
            self._stopping = True          # this iteration still runs (and may advance the clock)
        if self._ready:
            self._stall += 1
            if self._stall > SPIN_LIMIT and nxt is not None and nxt > self._vt:
                if self._vt_limit is not None and nxt > self._vt_limit:
                    self._vt = max(self._vt, self._vt_limit)      # never backwards: a blocking consumer may have moved the clock past the limit
                    self.stop_reason = 'vt-limit'
                    self._stopping = True
                else:
                    self._vt = nxt
                    self.spin_jumps += 1
                self._stall = 0
        else:
            self._stall = 0
            if nxt is None:
                if self._vt_limit is not None and self._vt_limit != float('inf'):
                    self._vt = max(self._vt, self._vt_limit)
                self.stop_reason = self.stop_reason or 'idle'
                self._stopping = True
            elif self._vt_limit is not None and nxt > self._vt_limit:
                self._vt = max(self._vt, self._vt_limit)
                self.stop_reason = self.stop_reason or 'vt-limit'
                self._stopping = True
            elif nxt > self._vt:
                self._vt = nxt
        super()._run_once()

    # -- driving ---------------------------------------------------------
    def drive(self, until_vt=None, max_iters=200000):
        """Run until idle (no ready callback and no timer), until the next
        timer lies beyond ``until_vt`` (the clock is then set to until_vt), or
        until the iteration cap.  Returns 'idle' | 'vt-limit' | 'iter-cap'."""
        self.stop_reason = None
        self._vt_limit = until_vt
        self._iter_limit = self.iters + max_iters
        self._stall = 0
        try:
            self.run_forever()
        finally:
            self._vt_limit = None
            self._iter_limit = None
        return self.stop_reason or 'stopped'

    def run_for(self, dt, max_iters=200000):
        return self.drive(until_vt=self._vt + dt, max_iters=max_iters)


class Env:
    """What a case gets: the loop, its tornado wrapper and collected errors."""
    def __init__(self, loop, io, collector):
        self.loop = loop
        self.io = io
        self._collector = collector

    @property
    def errors(self):
        out = [(n, m, e) for (n, m, e) in self._collector.records]
        out.extend(('asyncio', m, e) for (m, e) in self.loop.loop_errors)
        return out

    def now(self):
        return self.loop.time()


@contextlib.contextmanager
def virtual_env(t0=0.0):
    """Fresh VLoop installed as the current loop, streamz' clock virtualised.  t0: where the virtual clock starts (0, or
    a realistic epoch value such as 1.7e9 -- arithmetic on time stamps of that size loses what a narrow float type
    cannot hold)."""
    from tornado.ioloop import IOLoop
    import streamz.core as score
    import streamz.sinks as ssinks

    warnings.simplefilter('ignore')
    logging.getLogger('streamz.core').setLevel(logging.CRITICAL + 10)
    loop = VLoop()
    loop._vt = float(t0)
    if abs(t0) > 1e6:
        # asyncio fires the timers with when < time() + clock resolution; 1 ns vanishes next to an epoch-sized float
        loop._clock_resolution = 1e-6
    asyncio.set_event_loop(loop)
    io = IOLoop.current()
    assert io.asyncio_loop is loop
    io.time = loop.time
    old_time = score.time
    score.time = loop.time
    col = _Collector()
    loggers = [logging.getLogger(n) for n in ('tornado.application', 'asyncio', 'tornado.general')]
    saved = [(lg, lg.propagate, lg.level) for lg in loggers]
    for lg in loggers:
        lg.addHandler(col)
        lg.propagate = False
        lg.setLevel(logging.WARNING)
    env = Env(loop, io, col)
    try:
        yield env
    finally:
        col.active = False
        score.time = old_time
        ssinks._global_sinks.clear()
        try:
            io.close(all_fds=True)
        except Exception:
            pass
        if not loop.is_closed():
            loop.close()
        # back to the state of a fresh interpreter (no loop set, none refused)
        asyncio.set_event_loop_policy(None)
        env.loop = None
        for lg, prop, lvl in saved:
            lg.removeHandler(col)
            lg.propagate = prop
            lg.setLevel(lvl)


@contextlib.contextmanager
def private_plain_loop():
    """For plain (blocking-mode, no loop running) cases: futures that streamz creates there (e.g. the Condition of a
    zip whose buffer exceeds maxsize) attach to "the current event loop" of the thread, which asyncio creates on
    demand and which never runs -- their callbacks would pile up in it from case to case and keep every recorded log
    alive.  Give each case its own such loop and close it afterwards."""
    loop = asyncio.new_event_loop()
    asyncio.set_event_loop(loop)
    try:
        yield loop
    finally:
        try:
            loop.close()
        finally:
            asyncio.set_event_loop_policy(None)
