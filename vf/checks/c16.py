"""C16 -- failures reach the emitter, keep node state intact, are never
checkpointed.

Fault enumeration: for small generated programs of directly connected nodes,
a fault-free run counts the invocations of every user function (map / starmap /
filter / accumulate functions, key functions, sink functions); then *every*
single invocation is made to fail in its own run, plus random multi-fault sets.
Oracle per run, over the recorded history:
 (1) the very injected exception reaches the caller of emit (raised by the
     blocking emit -- through sync() when the pipeline is bound to the loop
     thread -- or raised by / carried by the awaitable in asynchronous mode);
     every emit without a failing invocation returns normally;
 (2) for the node whose function raised, its output sequence equals the
     reference node fed with its observed inputs minus the failing ones;
 (3) the completion signal of a failed element is never given.
"""
import random

from .. import funcs as F
from .. import model as M
from .. import progs, syncrun

PID = 'C16'
LEVEL = 'fault_enumeration'
RULE = ('small programs (<=7 nodes, <=8 inputs) from the synchronous catalogue; fault-free run enumerates user-function '
        'invocations; every single invocation fails in its own run (exhaustive over single faults of the program), plus '
        'random 2-3-fault sets; modes plain / plain-on-loop-thread (when a loop-needing node is present) / asynchronous; '
        'non-trivial = a fault was actually injected and a later input was processed by the failing node or the failing '
        'invocation had a stateful node; distinct by hash(program, inputs, mode, fault set)')
REQUIRED = ['faults_injected', 'exception_identity_checks', 'failing_node_state_checks', 'failed_element_signal_checks']
ASSUMPTIONS = ['reference semantics = DESIGN.md Appendix A', 'only directly connected (non-buffered) nodes']


def plan(tier):
    if tier == 'thorough':
        return {'shards': 16, 'timeout_s': 1700}
    return {'shards': 4, 'timeout_s': 280}


def n_programs(tier):
    return 400 if tier == 'thorough' else 25


OPS = ['map', 'map', 'starmap', 'filter', 'accumulate', 'accumulate', 'partition', 'partition_unique',
       'sliding_window', 'unique', 'flatten', 'pluck', 'union', 'zip', 'combine_latest', 'zip_latest', 'slice']


def gen_program(rng, tier):
    g = progs.Gen(rng, ops=OPS, max_nodes=6, allow_feedback=False, allow_collect=False)
    prog = g.program()
    inputs = g.inputs(prog, max_len=8)
    for it in inputs:
        it[2] = 1
    mode = rng.choice(['plain', 'async'])
    return prog, inputs, mode


class Injector:
    def __init__(self, faults):
        self.faults = faults            # {fn name: set(call idx)}
        self.calls = []
        self.fns = {}

    def wrap(self, nid, kind, fn):
        name = '%s:%s' % (nid, kind)
        f = F.Faulty(name, fn, self.faults.get(name, ()), self.calls)
        self.fns[name] = f
        return f


def build_with_keys(prog, inj):
    """wrap key functions too: they are user functions"""
    # progs.build_real resolves key names through F.KEYS; temporarily substitute wrapped versions
    return None


def run_with_faults(prog, inputs, mode, faults):
    inj = Injector(faults)
    res = syncrun.run_case(prog, inputs, mode=mode, with_refs=True, fn_wrap=inj.wrap)
    res.inj = inj
    return res


def check_run(case, res, counters):
    prog, inputs, faults = case['prog'], case['inputs'], case['faults']
    viols, seen = [], set()

    def add(key, what):
        if key not in seen:
            seen.add(key)
            viols.append({'key': key, 'what': what, 'case': case})
    specs = {s['id']: s for s in prog['nodes']}
    log = res.log
    # which emits had a failing invocation
    entry_idx = None
    failed_emit = {}            # emit index -> first fault uid
    injected = 0
    # walk log: ENTRY ... EMIT_DONE delimit one emit
    cur = None
    raised_in_emit = {}
    for e in log.ev:
        if e[2] == 'ENTRY':
            cur = e[4]
        elif e[2] == 'RAISED' and isinstance(e[6], F.InjectedFault):
            raised_in_emit.setdefault(cur, []).append(e[6])
        elif e[2] == 'ACCEPTED' and isinstance(e[5], F.InjectedFault):
            # coroutine-style update(): the failure is carried by its future
            raised_in_emit.setdefault(cur, []).append(e[5])
    errs = dict(res.emit_errors)
    for i in range(len(inputs)):
        exc = errs.get(i)
        want = raised_in_emit.get(i)
        if want is not None:
            injected += 1
            counters['exception_identity_checks'] = counters.get('exception_identity_checks', 0) + 1
            if exc is None:
                add('C16:fault-swallowed', 'emit #%d: invocation %s raised but emit returned normally' % (i, want[0].uid))
            elif not any(exc is w for w in want):
                add('C16:wrong-exception', 'emit #%d: injected %r, caller got %r' % (i, want, exc))
        elif exc is not None:
            add('C16:spurious-exception:%s' % type(exc).__name__, 'emit #%d raised %r without a failing invocation' % (i, exc))
    counters['faults_injected'] = counters.get('faults_injected', 0) + injected
    if res.node_loop_bound and injected:
        counters['faults_transported_through_sync'] = counters.get('faults_transported_through_sync', 0) + injected
    # (2) state of the failing node
    ins = {}
    own_fail = {}
    for e in log.ev:
        if e[2] == 'IN':
            ins.setdefault(e[3], []).append([e[4], e[5], e[6], False])
        elif (e[2] == 'RAISED' and isinstance(e[6], F.InjectedFault)) or \
                (e[2] == 'ACCEPTED' and isinstance(e[5], F.InjectedFault)):
            nid = e[3]
            exc, x = (e[6], e[5]) if e[2] == 'RAISED' else (e[5], e[4])
            if str(exc.uid[0]).split(':')[0] == nid and ins.get(nid):
                # the most recent un-failed IN of this node with this value is the failing one
                for rec in reversed(ins[nid]):
                    if not rec[3] and (rec[1] is x or rec[1] == x):
                        rec[3] = True
                        break
                own_fail[nid] = own_fail.get(nid, 0) + 1
    outs = syncrun.node_outs(log)
    for nid, nfail in own_fail.items():
        spec = specs[nid]
        if spec['op'] in ('sink', 'sink_flush'):
            continue
        ups = list(spec.get('ups', []))
        mn, mups = M.standalone(spec, len(ups))
        for who, x, md, failed in ins[nid]:
            if failed:
                continue
            mn.update(x, mups[ups.index(who)], md)
        real = [syncrun._val(x) for x, _ in outs.get(nid, [])]
        exp = [syncrun._val(x) for x, _ in mn.out]
        counters['failing_node_state_checks'] = counters.get('failing_node_state_checks', 0) + 1
        later = sum(1 for rec in ins[nid] if not rec[3])
        res.stateful_checked = getattr(res, 'stateful_checked', 0) + (1 if later else 0)
        if real != exp:
            add('C16:state-after-failure@%s' % spec['op'],
                'node %s (%s): %d own failure(s); outputs %s, reference on the non-failing inputs %s'
                % (nid, spec['op'], nfail, real[:30], exp[:30]))
    # (3) failed elements are never signalled
    failed_dicts = set()
    for e in log.ev:
        if e[2] == 'RAISED' and isinstance(e[6], F.InjectedFault):
            # find the IN event of this RAISED: same node, same x, latest before
            pass
    # metadata seen by the raising update() call
    last_in = {}
    for e in log.ev:
        if e[2] == 'IN':
            last_in[(e[3], id(e[5]))] = e[6]
        elif (e[2] == 'RAISED' and isinstance(e[6], F.InjectedFault)) or \
                (e[2] == 'ACCEPTED' and isinstance(e[5], F.InjectedFault)):
            md = last_in.get((e[3], id(e[5] if e[2] == 'RAISED' else e[4])))
            for d in (md or []):
                if isinstance(d, dict):
                    failed_dicts.add(id(d))
    # an emit whose only failures were (a) carried by the future of a coroutine-style update() and
    # (b) hit a piece that carried no metadata (non-last piece of a flatten): the mechanism of the
    # known finding "flatten attaches the counter to the last piece only"
    # dicts that accompanied some failing data (by emit index)
    carried = {}
    last_in2 = {}
    cur = None
    for e in log.ev:
        if e[2] == 'ENTRY':
            cur = e[4]
        elif e[2] == 'IN':
            last_in2[(e[3], id(e[5]))] = e[6]
        elif (e[2] == 'RAISED' and isinstance(e[6], F.InjectedFault)) or \
                (e[2] == 'ACCEPTED' and isinstance(e[5], F.InjectedFault)):
            md = last_in2.get((e[3], id(e[5] if e[2] == 'RAISED' else e[4])))
            for d in (md or []):
                if isinstance(d, dict):
                    carried.setdefault(cur, set()).add(id(d))
    elem_emit = {}
    for i in raised_in_emit:
        for d in res.mds[i]:
            failed_dicts.add(id(d))
            elem_emit[id(d)] = i
    for did, (j, ref, d) in res.refs.items():
        if did in failed_dicts:
            counters['failed_element_signal_checks'] = counters.get('failed_element_signal_checks', 0) + 1
            if ref.triggers:
                if did not in carried.get(elem_emit.get(did), set()) and any(sp['op'] == 'flatten' for sp in prog['nodes']):
                    add('C16:failed-element-signalled:deferred-failure-of-metadata-less-flatten-piece',
                        'element %s: a non-last piece produced by flatten (which carries no metadata) failed inside a '
                        'coroutine-style node, the failure was carried by a future, the last piece went through and '
                        'the completion signal was given (by %s)' % (ref.uid, ref.trigger_blame[0]))
                else:
                    add('C16:failed-element-signalled@%s' % (ref.trigger_blame[0].split('.')[0]),
                        'element %s failed (emit raised) but its completion signal was given by %s' % (ref.uid, ref.trigger_blame[0]))
    return viols, injected


def enumerate_faults(prog, inputs, mode):
    res = run_with_faults(prog, inputs, mode, {})
    if res.hung or res.emit_errors:
        return None
    return list(res.inj.calls)


def check_case(case, counters, sets):
    res = run_with_faults(case['prog'], case['inputs'], case['mode'], {k: set(v) for k, v in case['faults'].items()})
    if res.hung:
        return None, [], 0
    res.node_loop_bound = any(n.loop is not None for n in res.nodes.values()) and case['mode'] == 'plain'
    viols, injected = check_run(case, res, counters)
    for s in case['prog']['nodes']:
        sets.setdefault('node_types_seen', set()).add(s['op'])
    sets.setdefault('modes', set()).add(case['mode'] + ('+loop-thread' if res.node_loop_bound else ''))
    return res, viols, injected


def run_shard(seed, tier, shard, nshards):
    rng = random.Random('%s-%d-%d-%s' % (PID, seed, shard, tier))
    out = {'evaluations': 0, 'keys': [], 'violations': [], 'samples': [], 'counters': {},
           'sets': {}, 'inconclusive': []}
    C = out['counters']
    for k in range(n_programs(tier)):
        prog, inputs, mode = gen_program(rng, tier)
        calls = enumerate_faults(prog, inputs, mode)
        if calls is None:
            out['inconclusive'].append('program %d: fault-free run failed' % k)
            continue
        C['programs'] = C.get('programs', 0) + 1
        C['single_fault_points_enumerated'] = C.get('single_fault_points_enumerated', 0) + len(calls)
        fault_sets = [{name: [i]} for (name, i) in calls]
        for _ in range(min(6, len(calls))):
            fs = {}
            for name, i in rng.sample(calls, min(len(calls), rng.choice([2, 3]))):
                fs.setdefault(name, []).append(i)
            fault_sets.append(fs)
        for fs in fault_sets:
            case = {'prog': prog, 'inputs': inputs, 'mode': mode, 'faults': fs}
            res, viols, injected = check_case(case, C, out['sets'])
            out['evaluations'] += 1
            if res is None:
                out['inconclusive'].append('program %d: blocking emit did not return' % k)
                continue
            if injected:
                out['keys'].append(progs.prog_key(prog, [inputs, mode, fs]))
            out['violations'].extend(viols)
            if len(out['samples']) < 2 and injected and getattr(res, 'stateful_checked', 0):
                out['samples'].append({'program': [' '.join('%s=%s' % kv for kv in s.items() if kv[1] not in (None, [], {})) for s in prog['nodes']],
                                       'inputs': inputs, 'mode': mode, 'fault_set': fs,
                                       'emit_results': [[i, repr(e)] for i, e in res.emit_errors]})
    return out


def replay(case):
    _, viols, _ = check_case(case, {}, {})
    return viols
