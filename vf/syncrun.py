"""Run one synchronous program on the real streamz and on the model, and
compare.  Shared by C01 (values / order), C10 (metadata), C05 (counters at
quiescent points) and C16 (faults).
"""
import threading

from . import model as M
from . import recorder as R
from .probes import ProbeRef
from .progs import build_real
from .vloop import virtual_env


def make_md(inputs, log, with_refs=True):
    """metadata objects per input: list of dicts (distinct objects)"""
    out = []
    refs = {}
    for i, (e, v, nmd) in enumerate(inputs):
        md = []
        for j in range(nmd):
            d = {'id': '%d.%d' % (i, j)}
            if with_refs and j == 0:
                ref = ProbeRef('%d.%d' % (i, j), log)
                d['ref'] = ref
                refs[id(d)] = (i, ref, d)
            md.append(d)
        out.append(md)
    return out, refs


def _val(x):
    if isinstance(x, list):
        return tuple(_val(y) for y in x)
    if isinstance(x, tuple):
        return tuple(_val(y) for y in x)
    return x


class SyncResult:
    pass


def run_case(prog, inputs, mode='plain', with_refs=True, fn_wrap=None, per_emit=None,
             emit_timeout=20.0, caller_loop=False):
    """mode: 'plain' (Stream()), 'async' (Stream(asynchronous=True) on a VLoop).

    Returns SyncResult with: log, calls (real global sink call order),
    model (after all inputs), emit_errors [(i, exc)], quiescent [(i, {uid:
    (count, triggers, model_holders)})]."""
    res = SyncResult()
    res.emit_errors = []
    res.quiescent = []
    res.hung = False
    res.caller_loop = caller_loop       # plain mode, pipeline on the background loop: the caller's thread runs a loop of its own
    calls = []
    mdl = M.Model(prog)
    res.model = mdl
    res.calls = calls

    def body(env):
        clock = env.now if env is not None else None
        with R.recording(clock) as log:
            res.log = log
            mds, refs = make_md(inputs, log, with_refs)
            res.mds, res.refs = mds, refs
            skw = {'asynchronous': True} if mode == 'async' else {}
            S = build_real(prog, log, calls, source_kwargs=skw, fn_wrap=fn_wrap)
            res.nodes = S
            res.model_errors = []
            for i, (e, v, nmd) in enumerate(inputs):
                md = mds[i]
                x = _val(v)
                log.add('ENTRY', e, i, x)
                # model first (pure), catching model-side exceptions separately
                m_exc = None
                try:
                    mdl.push(e, x, md)
                except Exception as ex:            # only with injected faults
                    m_exc = ex
                r_exc = None
                try:
                    if mode == 'async':
                        try:
                            fut = S[e].emit(x, metadata=md if md else None)
                        finally:
                            # also after a synchronous failure: work already handed to the loop (an
                            # asynchronous sink of an earlier sibling) belongs to this emit
                            env.loop.drive(max_iters=20000)
                        if fut is not None and hasattr(fut, 'done'):
                            if not fut.done():
                                res.hung = True
                            elif fut.exception() is not None:
                                r_exc = fut.exception()
                    else:
                        r_exc = _emit_with_watchdog(S[e], x, md, emit_timeout, res)
                except Exception as ex:
                    r_exc = ex
                log.add('EMIT_DONE', e, i, r_exc)
                if r_exc is not None:
                    res.emit_errors.append((i, r_exc))
                if m_exc is not None:
                    res.model_errors.append((i, m_exc))
                if per_emit is not None:
                    per_emit(i, res)
                if with_refs:
                    hold = mdl.holders()
                    snap = {}
                    for did, (j, ref, d) in refs.items():
                        if j <= i:
                            snap[ref.uid] = (ref.count, ref.triggers, hold.get(did, 0))
                    res.quiescent.append((i, snap))
                if res.hung:
                    break

    if mode == 'async':
        with virtual_env() as env:
            body(env)
    else:
        body(None)
        import streamz.sinks as ssinks
        ssinks._global_sinks.clear()
    return res


def _emit_with_watchdog(node, x, md, timeout, res):
    """plain emit.  If the pipeline is bound to the shared background loop the
    blocking emit goes through sync(); guard against a hang with a watchdog
    thread only in that case."""
    if node.loop is None:
        try:
            node.emit(x, metadata=md if md else None)
        except Exception as ex:
            return ex
        return None
    box = {}

    def run():
        try:
            if getattr(res, 'caller_loop', False):
                import asyncio

                async def in_a_coroutine():
                    return node.emit(x, metadata=md if md else None)       # a blocking emit made from inside another loop
                r = asyncio.run(in_a_coroutine())
                if r is not None and hasattr(r, 'done'):
                    box['exc'] = AssertionError('blocking emit returned a pending awaitable %r instead of blocking' % (r,))
            else:
                node.emit(x, metadata=md if md else None)
        except Exception as ex:
            box['exc'] = ex
        box['done'] = True
    t = threading.Thread(target=run, daemon=True)
    t.start()
    t.join(timeout)
    if not box.get('done'):
        res.hung = True
        return None
    return box.get('exc')


# ---------------------------------------------------------------------------
# comparisons
# ---------------------------------------------------------------------------

def node_outs(log):
    """{label: [(x, md)]} from OUT events"""
    out = {}
    for e in log.ev:
        if e[2] == 'OUT':
            out.setdefault(e[3], []).append((e[4], e[5]))
    return out


def node_ins(log):
    out = {}
    for e in log.ev:
        if e[2] == 'IN':
            out.setdefault(e[3], []).append((e[4], e[5], e[6]))   # who, x, md
    return out


def compare_values(prog, res):
    """C01 clauses.  Returns list of (clause, node, detail)."""
    bad = []
    outs = node_outs(res.log)
    ins = node_ins(res.log)
    classes = {}
    for spec in prog['nodes']:
        nid, op = spec['id'], spec['op']
        mn = res.model.nodes[nid]
        if op in ('sink', 'sink_flush'):
            real = [_val(x) for (s, x) in res.calls if s == nid]
            exp = [_val(x) for x, _ in mn.out]
            if real != exp:
                bad.append(('sink-sequence', nid, op, {'real': real[:40], 'model': exp[:40]}))
            continue
        real = [_val(x) for x, _ in outs.get(nid, [])]
        exp = [_val(x) for x, _ in mn.out]
        if real != exp:
            bad.append(('node-output', nid, op, {'real': real[:40], 'model': exp[:40]}))
    # global order of sink calls (subsumes sibling order and depth-first push)
    rc = [(s, _val(x)) for s, x in res.calls]
    mc = [(s, _val(x)) for s, x in res.model.calls]
    if rc != mc and not any(b[0] in ('sink-sequence', 'node-output') for b in bad):
        k = next((i for i, (a, b) in enumerate(zip(rc, mc)) if a != b), min(len(rc), len(mc)))
        bad.append(('global-sink-order', 'graph', 'graph',
                    {'first_diff': k, 'real': rc[max(0, k - 2):k + 4], 'model': mc[max(0, k - 2):k + 4]}))
    # per edge: what v received from u is what u emitted (while attached)
    edges = [(u, spec['id']) for spec in prog['nodes'] for u in spec.get('ups', [])]
    edges += [tuple(e) for e in prog.get('extra_edges', [])]
    specs = {s['id']: s for s in prog['nodes']}
    for u, v in edges:
        got = [_val(x) for (who, x, md) in ins.get(v, []) if who == u]
        exp = [_val(x) for (who, x) in res.model.nodes[v].ins if who == u]
        sv = specs[v]
        if sv['op'] == 'slice' and sv.get('end') is not None:
            # whether a finished slice is detached or merely ignores further
            # input is not observable through the API: its output decides
            exp = exp[:len(got)] if len(got) <= len(exp) else exp
            got = got[:len(exp)]
        if got != exp:
            bad.append(('edge-delivery', v, specs[u]['op'] + '->' + sv['op'],
                        {'edge': [u, v], 'model': exp[:40], 'got': got[:40]}))
    res.n_edges_checked = len(edges)
    return bad


def rooted(prog, bad):
    """keep only root causes: output mismatches at nodes none of whose
    ancestors mismatched, and edge mismatches whose sending node is clean"""
    badn = {b[1] for b in bad if b[0] in ('node-output', 'sink-sequence')}
    bade = {tuple(b[3]['edge']) for b in bad if b[0] == 'edge-delivery'}
    children = {}
    for spec in prog['nodes']:
        for u in spec.get('ups', []):
            children.setdefault(u, []).append(spec['id'])
        if spec['op'] == 'sink_flush':
            children.setdefault(spec['id'], []).append(spec['target'])
    for u, v in prog.get('extra_edges', []):
        children.setdefault(u, []).append(v)
    tainted = set()
    stack = []
    for n in badn:
        stack.extend(children.get(n, []))
    for (u, v) in bade:
        stack.append(v)
    while stack:
        n = stack.pop()
        if n in tainted:
            continue
        tainted.add(n)
        stack.extend(children.get(n, []))
    out = []
    for b in bad:
        if b[0] in ('node-output', 'sink-sequence'):
            if b[1] in tainted:
                continue
        elif b[0] == 'edge-delivery':
            u, v = b[3]['edge']
            if u in badn or u in tainted:
                continue
        elif b[0] == 'global-sink-order' and (badn or bade):
            continue
        out.append(b)
    # inside a feedback cycle every node is downstream of every other: name the first one in creation order
    return out or bad[:1]


def compare_metadata(prog, res):
    """C10 clauses: shape (flat list of dicts) and identity/ordering.
    Returns (bad, number of metadata lists compared)."""
    bad = []
    outs = node_outs(res.log)
    ins = node_ins(res.log)
    n_checked = 0
    for spec in prog['nodes']:
        nid, op = spec['id'], spec['op']
        mn = res.model.nodes[nid]
        if op in ('sink', 'sink_flush'):
            real = [md for (_, _, md) in ins.get(nid, [])]
        else:
            real = [md for _, md in outs.get(nid, [])]
        exp = [md for _, md in mn.out]
        if len(real) != len(exp):
            continue            # a value mismatch: C01's business
        for k, (rm, em) in enumerate(zip(real, exp)):
            n_checked += 1
            rm_l = [] if rm is None else rm
            if not isinstance(rm_l, list) or not all(isinstance(d, dict) for d in rm_l):
                bad.append(('shape', nid, op, {'k': k, 'real': repr(rm)[:200]}))
                continue
            if [id(d) for d in rm_l] != [id(d) for d in em]:
                bad.append(('content', nid, op, {'k': k, 'real': [d.get('id') for d in rm_l],
                                                 'model': [d.get('id') for d in em]}))
    return bad, n_checked


def rooted_md(prog, bad):
    """metadata mismatches whose node has no mismatching ancestor"""
    badn = {b[1] for b in bad}
    children = {}
    for spec in prog['nodes']:
        for u in spec.get('ups', []):
            children.setdefault(u, []).append(spec['id'])
        if spec['op'] == 'sink_flush':
            children.setdefault(spec['id'], []).append(spec['target'])
    for u, v in prog.get('extra_edges', []):
        children.setdefault(u, []).append(v)
    tainted, stack = set(), []
    for n in badn:
        stack.extend(children.get(n, []))
    while stack:
        n = stack.pop()
        if n in tainted:
            continue
        tainted.add(n)
        stack.extend(children.get(n, []))
    out = [b for b in bad if b[1] not in tainted]
    return out or bad
