"""One shard of a check, run in its own process (see vf/cli.py)."""
import faulthandler
import importlib
import json
import logging
import sys
import warnings


def main(argv):
    pid, tier, seed, shard, nshards, out = argv
    faulthandler.enable()
    logging.lastResort = None               # nothing to stderr; vf/vloop.py collects loop-level errors itself
    logging.getLogger('streamz').setLevel(logging.CRITICAL + 10)   # streamz logs every user exception
    logging.getLogger('distributed').setLevel(logging.CRITICAL + 10)
    warnings.simplefilter('ignore')
    mod = importlib.import_module('vf.checks.%s' % pid.lower())
    res = mod.run_shard(int(seed), tier, int(shard), int(nshards))
    res['keys'] = sorted(set(res.get('keys', [])))
    res['sets'] = {k: sorted(set(v), key=str) for k, v in res.get('sets', {}).items()}
    with open(out + '.tmp', 'w') as f:
        json.dump(res, f, default=str)
    import os
    os.replace(out + '.tmp', out)


if __name__ == '__main__':
    main(sys.argv[1:])
