"""C10 -- metadata travels with exactly the data it describes.

Same executions as C01 (generated programs on the real code, recorded at the
node boundary), with 0, 1 or 2 distinct metadata dictionaries attached to every
input.  Oracle: at every node the metadata of the k-th output is a flat list
of dicts that is, by object identity and in order, what the reference
interpreter prescribes (Appendix A: unchanged / concatenation in member order /
last piece only / nothing).  Asynchronous nodes are covered by the local
monitors of vf/asyncrun.py (see C02), which run the same clause.
"""
import random

from .. import progs, syncrun

PID = 'C10'
LEVEL = 'exploration'
RULE = ('programs and inputs as for C01; every input carries 0, 1 or 2 fresh metadata dicts (one of them with a '
        'reference counter); non-trivial = >=3 non-sink nodes, at least one sink call and at least one output '
        'with non-empty metadata compared; distinct by hash of (program, inputs, mode)')
REQUIRED = ['metadata_lists_compared', 'nonempty_metadata_compared']
ASSUMPTIONS = ['reference semantics = DESIGN.md Appendix A', 'identity of dict objects is the ground truth for "the metadata of input i"']


def plan(tier):
    if tier == 'thorough':
        return {'shards': 16, 'timeout_s': 1500}
    return {'shards': 8, 'timeout_s': 280}


def n_cases(tier):
    return 16000 if tier == 'thorough' else 600


def one_case(rng, tier):
    if rng.random() < 0.06:
        # None / falsy / string / nested-tuple elements through the time-based nodes
        from .. import aprogs
        g = aprogs.XAGen(rng, max_nodes=6)
        prog = g.program(min_async=1)
        return {'family': 'async', 'prog': prog, 'producers': g.producers(prog, max_total=16),
                'awaiting': rng.random() < 0.6, 'inputs': [], 'mode': 'vloop', 'exotic': True}
    if rng.random() < 0.08:
        xg = progs.XGen(rng, max_nodes=7)
        prog = xg.program()
        return {'prog': prog, 'inputs': xg.inputs(prog), 'mode': 'async' if rng.random() < 0.5 else 'plain', 'exotic': True}
    if rng.random() < 0.3:
        from .. import aprogs
        g = aprogs.AGen(rng, async_ops=aprogs.LOSSLESS_ASYNC + ['timed_window_unique', 'latest'], max_nodes=7)
        prog = g.program(min_async=1)
        return {'family': 'async', 'prog': prog, 'producers': g.producers(prog, max_total=18, n_md=(0, 1, 1, 2)),
                'awaiting': rng.random() < 0.6, 'inputs': [], 'mode': 'vloop'}
    g = progs.Gen(rng, max_nodes=12 if tier == 'thorough' else 10)
    prog = g.program()
    inputs = g.inputs(prog, max_len=40 if tier == 'thorough' else 25)
    mode = 'async' if rng.random() < 0.5 else 'plain'
    return {'prog': prog, 'inputs': inputs, 'mode': mode}


def check_async(case, counters, sets):
    from .. import asyncrun
    ar = asyncrun.run_async(case)
    if ar.stop in ('iter-cap', 'vt-cap', 'watchdog'):
        return None, []
    V, C = asyncrun.local_checks(case, ar, check_md=True)
    viols, seen = [], set()
    for clause, op, detail in V:
        if clause != 'metadata':
            continue            # value-level differences are C02's business
        key = 'C10:metadata@%s(async)' % op
        if key not in seen:
            seen.add(key)
            viols.append({'key': key, 'what': 'node %s: metadata of an output is not the metadata of the inputs that '
                          'contributed to it: %s' % (detail.get('node'), detail), 'case': case})
    n = sum(1 for e in ar.log.ev if e[2] == 'OUT')
    counters['metadata_lists_compared'] = counters.get('metadata_lists_compared', 0) + n
    ne = sum(1 for e in ar.log.ev if e[2] == 'OUT' and e[5])
    counters['nonempty_metadata_compared'] = counters.get('nonempty_metadata_compared', 0) + ne
    counters['async_runs'] = counters.get('async_runs', 0) + 1
    counters['events_observed'] = counters.get('events_observed', 0) + len(ar.log.ev)
    for s_ in case['prog']['nodes']:
        sets.setdefault('node_types_seen', set()).add(s_['op'] + ('+timeout' if asyncrun.is_async_partition(s_) else ''))
    ar.nonempty = ne
    ar.calls = [e for e in ar.log.ev if e[2] == 'START']
    return ar, viols


def check_case(case, counters, sets):
    if case.get('family') == 'async':
        return check_async(case, counters, sets)
    prog, inputs, mode = case['prog'], case['inputs'], case['mode']
    res = syncrun.run_case(prog, inputs, mode=mode, with_refs=True)
    if res.hung:
        return None, []
    viols = []
    bad, n = syncrun.compare_metadata(prog, res)
    counters['metadata_lists_compared'] = counters.get('metadata_lists_compared', 0) + n
    nonempty = sum(1 for e in res.log.ev if e[2] == 'OUT' and e[5])
    counters['nonempty_metadata_compared'] = counters.get('nonempty_metadata_compared', 0) + nonempty
    counters['events_observed'] = counters.get('events_observed', 0) + len(res.log.ev)
    res.nonempty = nonempty
    seen = set()
    for clause, nid, op, detail in syncrun.rooted_md(prog, bad):
        key = 'C10:%s@%s' % (clause, op)
        if key in seen:
            continue
        seen.add(key)
        viols.append({'key': key, 'what': 'node %s (%s): %s' % (nid, op, detail), 'case': case})
    for s in prog['nodes']:
        sets.setdefault('node_types_seen', set()).add(s['op'])
    return res, viols


def gen_edit_case(rng):
    """a combining node over 3-4 inputs whose inputs are disconnected / connected while data flows; every value is unique"""
    k = rng.choice([3, 3, 4])
    steps, live, nxt, v = [], list(range(k)), k, 0
    for _ in range(rng.randrange(6, 22)):
        r = rng.random()
        if r < 0.12 and len(live) > 2:
            i = rng.choice(live)
            live.remove(i)
            steps.append(['disconnect', i])
        elif r < 0.18 and nxt < 7:
            steps.append(['connect', nxt])
            live.append(nxt)
            nxt += 1
        else:
            v += 1
            steps.append(['emit', rng.choice(live), v, rng.choice([0, 1, 1, 2])])
    return {'edit': True, 'node': rng.choice(['combine_latest', 'combine_latest', 'zip']), 'k': k, 'steps': steps}


def check_edit_case(case, counters, sets):
    """Metadata travels with exactly the data it describes also across graph edits: every component of a tuple a combining
    node delivers is a unique value, so the metadata the tuple must carry is the concatenation, in tuple order, of the
    metadata those values were emitted with -- whatever the node decides about WHEN to emit."""
    from streamz import Stream
    from .. import recorder as R
    viols = []
    with R.recording() as log:
        srcs = {i: Stream() for i in range(case['k'])}
        node = getattr(srcs[0], case['node'])(*[srcs[i] for i in range(1, case['k'])])
        log.name(node, 'cl')
        got = []
        sk = node.sink(got.append)
        md_of = {}
        try:
            for st in case['steps']:
                if st[0] == 'emit':
                    md = [{'v': st[2], 'j': j} for j in range(st[3])]
                    md_of[st[2]] = md
                    srcs[st[1]].emit(st[2], metadata=md if md else None)
                elif st[0] == 'disconnect':
                    srcs[st[1]].disconnect(node)
                else:
                    srcs[st[1]] = Stream()
                    srcs[st[1]].connect(node)
        except Exception as ex:          # noqa: BLE001 -- what an edit or emit raises is C15's business; judge what was delivered
            counters['edit_histories_cut_short_by_an_exception'] = counters.get('edit_histories_cut_short_by_an_exception', 0) + 1
        finally:
            sk.destroy()
    n_edit = sum(1 for st in case['steps'] if st[0] != 'emit')
    for e in log.ev:
        if e[2] == 'OUT' and e[3] == 'cl':
            x, md = e[4], e[5] or []
            exp = [d for v in x for d in md_of.get(v, [])]
            counters['metadata_lists_compared'] = counters.get('metadata_lists_compared', 0) + 1
            counters['tuples_after_graph_edits_compared'] = counters.get('tuples_after_graph_edits_compared', 0) + (1 if n_edit else 0)
            if exp:
                counters['nonempty_metadata_compared'] = counters.get('nonempty_metadata_compared', 0) + 1
            if [id(d) for d in md] != [id(d) for d in exp]:
                viols.append({'key': 'C10:metadata@%s-after-connect-or-disconnect' % case['node'],
                              'what': '%s delivered %r with the metadata of %s; its components were emitted with the metadata of %s'
                                      % (case['node'], x, [d.get('v') for d in md], [d.get('v') for d in exp]), 'case': case})
                break
    sets.setdefault('modes', set()).add('graph-edits')
    return viols


def run_shard(seed, tier, shard, nshards):
    rng = random.Random('%s-%d-%d-%s' % (PID, seed, shard, tier))
    out = {'evaluations': 0, 'keys': [], 'violations': [], 'samples': [], 'counters': {},
           'sets': {}, 'inconclusive': []}
    for k in range(n_cases(tier) // 4):
        case = gen_edit_case(rng)
        out['violations'].extend(check_edit_case(case, out['counters'], out['sets']))
        out['evaluations'] += 1
        out['keys'].append(progs.prog_key(case, None))
    for k in range(n_cases(tier)):
        case = one_case(rng, tier)
        res, viols = check_case(case, out['counters'], out['sets'])
        out['evaluations'] += 1
        if res is None:
            out['inconclusive'].append('case %d: blocking emit did not return' % k)
            _keep_hung(case, seed, shard, k)
            continue
        nn = [s for s in case['prog']['nodes'] if s['op'] not in ('sink', 'sink_flush')]
        if len(nn) >= 3 and res.calls and res.nonempty:
            out['keys'].append(progs.prog_key(case['prog'], [case['inputs'], case['mode'], case.get('producers')]))
        out['violations'].extend(viols)
        if len(out['samples']) < 2 and len(nn) >= 4 and res.nonempty > 5 and case.get('family') != 'async':
            outs = syncrun.node_outs(res.log)
            nid = max(outs, key=lambda n: sum(len(md or []) for _, md in outs[n]))
            out['samples'].append({'program': [' '.join('%s=%s' % kv for kv in s.items() if kv[1] not in (None, [], {})) for s in case['prog']['nodes']],
                                   'inputs': case['inputs'][:10], 'mode': case['mode'],
                                   'metadata_seen_at': nid,
                                   'outputs_with_metadata_ids': [[repr(x)[:40], [d.get('id') for d in (md or [])]] for x, md in outs[nid][:8]]})
    return out


def replay(case):
    if case.get('edit'):
        return check_edit_case(case, {}, {})
    _, viols = check_case(case, {}, {})
    return viols


def _keep_hung(case, seed, shard, k):
    """a blocking emit that did not return within the watchdog is inconclusive, but the case is kept for inspection"""
    import json
    import os
    d = os.path.join(os.path.dirname(os.path.dirname(os.path.dirname(os.path.abspath(__file__)))), 'replays')
    os.makedirs(d, exist_ok=True)
    with open(os.path.join(d, '%s-hang-%d-%d-%d.json' % (PID, seed, shard, k)), 'w') as fh:
        json.dump({'property': PID, 'key': PID + ':inconclusive-hang', 'what': 'blocking emit did not return', 'case': case}, fh, default=str)
