#!/venv/bin/python
"""Intake of a seeded change produced by an independent sub-agent.

usage: tools/seed_intake.py <PID> <n> [extra check ids...]
Reads /tmp/seed_<PID>_out/<n>/{patch.diff,demo.py,notes.md}; in a scratch worktree confirms that the demo passes
without and fails with the change and that the repository's test-suite still passes with it; then runs the property's
check (quick, and thorough if quick misses) against the patched worktree.  Keeps the change under
/verif/seeded/<PID>-<n>/ with meta.json.  Never touches /repo's working tree."""
import json
import os
import shutil
import subprocess
import sys


def sh(cmd, cwd=None, env=None, timeout=1800):
    r = subprocess.run(cmd, shell=True, cwd=cwd, env=env, capture_output=True, timeout=timeout)
    return r.returncode, (r.stdout + r.stderr).decode('utf8', 'replace')


def main():
    tag, n = sys.argv[1], sys.argv[2]      # tag = property id, optionally followed by a round suffix (C04r2)
    pid = tag[:3]
    extra = sys.argv[3:]
    src = '/tmp/seed_%s_out/%s' % (tag, n)
    wt = '/tmp/intake_%s_%s' % (tag, n)
    meta = {'property': pid, 'source': 'independent sub-agent given only the property text and a scratch worktree',
            'base_commit': subprocess.check_output(['git', '-C', '/repo', 'rev-parse', '--short', 'HEAD']).decode().strip()}
    sh('git -C /repo worktree remove --force %s' % wt)
    rc, out = sh('git -C /repo worktree add -q %s HEAD' % wt)
    assert rc == 0, out
    try:
        shutil.copy(os.path.join(src, 'demo.py'), os.path.join(wt, 'demo.py'))
        rc0, out0 = sh('/venv/bin/python demo.py', cwd=wt, timeout=120)
        meta['demo_without_change'] = {'exit': rc0, 'tail': out0[-300:]}
        rc, out = sh('git apply %s' % os.path.join(src, 'patch.diff'), cwd=wt)
        meta['patch_applies'] = rc == 0
        if rc != 0:
            print('patch does not apply', out)
            return 2
        rc1, out1 = sh('/venv/bin/python demo.py', cwd=wt, timeout=120)
        meta['demo_with_change'] = {'exit': rc1, 'tail': out1[-300:]}
        os.remove(os.path.join(wt, 'demo.py'))
        rcs, outs = sh('/venv/bin/python -m pytest -q -p no:cacheprovider streamz 2>&1 | tail -3', cwd=wt, timeout=1500)
        line = [l for l in outs.splitlines() if 'passed' in l or 'failed' in l]
        meta['test_suite_with_change'] = line[-1] if line else outs[-200:]
        ok_suite = bool(line) and ' failed' not in line[-1] and '1036 passed' in line[-1]
        if not ok_suite and line and ' failed' in line[-1]:
            rcs, outs = sh('/venv/bin/python -m pytest -q -p no:cacheprovider streamz 2>&1 | tail -3', cwd=wt, timeout=1500)
            line = [l for l in outs.splitlines() if 'passed' in l or 'failed' in l]
            meta['test_suite_with_change_rerun'] = line[-1] if line else outs[-200:]
            ok_suite = bool(line) and ' failed' not in line[-1] and '1036 passed' in line[-1]
        meta['confirmed'] = bool(rc0 == 0 and rc1 != 0 and ok_suite)
        results = {}
        env = dict(os.environ, STREAMZ_SRC=wt)
        for c in [pid] + extra:
            for tier in ('quick', 'thorough'):
                rc, out = sh('./check %s %s' % (c, tier), cwd='/verif', env=dict(env, VERIF_SEED='0'), timeout=2400)
                keys = sorted(set(l.split()[1].rstrip(':') for l in out.splitlines() if l.startswith('  violation ')))
                results['%s %s' % (c, tier)] = {'exit': rc, 'violation_keys': keys[:12]}
                if rc == 1:
                    break
        meta['checks'] = results
        meta['caught'] = any(v['exit'] == 1 for v in results.values())
        dst = '/verif/seeded/%s-%s' % (tag, n)
        os.makedirs(dst, exist_ok=True)
        for f in ('patch.diff', 'demo.py', 'notes.md'):
            if os.path.exists(os.path.join(src, f)):
                shutil.copy(os.path.join(src, f), os.path.join(dst, f))
        try:
            notes = open(os.path.join(src, 'notes.md')).read()
            meta['needs_to_manifest'] = notes[:1200]
        except OSError:
            pass
        meta['what_i_ran'] = ['demo.py in a clean scratch worktree (expect exit 0)', 'git apply patch.diff; demo.py (expect exit 1)',
                              'python -m pytest -q -p no:cacheprovider streamz in the patched worktree',
                              'STREAMZ_SRC=<patched worktree> ./check <id> quick [thorough]']
        json.dump(meta, open(os.path.join(dst, 'meta.json'), 'w'), indent=1)
        print(tag, n, 'confirmed=%s' % meta['confirmed'], 'caught=%s' % meta['caught'], json.dumps(results)[:600])
    finally:
        sh('git -C /repo worktree remove --force %s' % wt)
        sh('git -C /verif checkout -- evidence')
        sh('rm -f /verif/replays/*.json')
    return 0


if __name__ == '__main__':
    sys.exit(main())
