"""C11 -- rolling / cumulative / expanding / ewm results do not depend on batching.

Runtime monitor on the E6 engine.  Every generated table is pushed through the REAL pipeline once unsplit and under
several compositions into batches (empty batches, batches shorter than the window, cuts right after a NaN row).  Oracle:

 rows      rolling(w).{sum,mean,min,max,median,std,var,count,quantile} (row-count and time windows) and
           cumsum/cumprod/cummin/cummax: pd.concat(everything emitted), in emission order, equals the pandas one-pass
           result over all rows -- same number of rows, same index labels row by row, values rtol=atol=1e-9, NaN==NaN.
 last      expanding().{sum,count,mean,var,std} and ewm(com|span|alpha|halflife).mean() emit one value per batch; after
           batch k (prefix non-empty) it equals the one-pass pandas value at the last row of the prefix (for ewm only
           the values of the emitted one-row object are compared; its label is the first row ever seen).
 sum0      expanding().sum() over a prefix without any valid observation: streamz reports 0 (the pandas .sum() convention),
           pandas expanding(min_periods=1).sum() reports NaN; this is normalised (pandas is asked with min_periods=0) and counted.
 raise     emit() raising although rows have been seen is a violation; on an empty prefix it is only counted, the
           later values must still be right.
The pandas call uses the same arguments the streaming call was given (rolling(window) with pandas' default min_periods).
"""
from .. import dfengine as E

PID = 'C11'
LEVEL = 'exploration'
RULE = ('tables of 2-16 rows (x dyadic floats, y small ints; NaN-free / NaNs in x; RangeIndex or non-decreasing 1 s '
        'DatetimeIndex) x sampled operations {rolling n in {1,2,3,5,8} / t in {1,2,5} s x 9 aggregations, 4 cumulative ops, '
        'expanding x 5, ewm.mean x {com,span,alpha,halflife}} on Series / DataFrame selections x (unsplit + 3 compositions: '
        'random, singletons, batches <,=,> window, cut after NaN rows, empty first/middle/last, filter-emptied); input class '
        'in the key: nan / nan-at-batch-end / empty-first-batch; non-trivial = >= 2 non-empty batches compared; distinct by sha1(case)')
REQUIRED = ['cmp_rolling_n', 'cmp_rolling_t', 'cmp_cumulative', 'cmp_expanding', 'cmp_ewm', 'rows_compared',
            'cmp_unsplit', 'cmp_split', 'cmp_with_nan', 'cmp_nan_at_batch_end', 'cmp_after_empty_first_batch']
ASSUMPTIONS = ['pandas %s is the reference, called with the same arguments as the streaming operation' % E.pd.__version__,
               'time windows are multiples of the 1 s index grid']

ROLL = ['sum', 'mean', 'min', 'max', 'median', 'std', 'var', 'count', 'quantile']
CUM = ['cumsum', 'cumprod', 'cummin', 'cummax']
EXP = ['sum', 'count', 'mean', 'var', 'std']
PRES = [None, None, None, None, ['y', '>=', 3], ['x', '>', 0], ['y', '<', 2]]


def plan(tier):
    if tier == 'thorough':
        return {'shards': 16, 'timeout_s': 1500}
    return {'shards': 4, 'timeout_s': 240}


def n_tables(tier):
    return 150 if tier == 'thorough' else 28


def _target(rng):
    r = rng.random()
    if r < 0.12:
        return {'src': 'series', 'sel': None, 'selpos': 'before'}
    return {'src': 'df', 'sel': rng.choice(['x', 'x', 'y', ['x', 'y'], ['x', 'y']]), 'selpos': rng.choice(['before', 'after'])}


def gen_ops(rng, timed, tier):
    ops = []
    for _ in range(9 if tier == 'quick' else 10):
        op = {'fam': 'roll', 'agg': rng.choice(ROLL), 'win': ['t', rng.choice([1, 2, 5])] if timed and rng.random() < 0.55
              else ['n', rng.choice([1, 2, 3, 5, 8])]}
        if op['win'][0] == 'n' and rng.random() < 0.15:
            op['win_np'] = True
        if op['win'][0] == 'n' and rng.random() < 0.3:
            # accepted but not handed on to pandas by the streaming implementation: results stay the default ones
            op['minp'] = rng.choice([1, 2, 3])
        op.update(_target(rng))
        if op['agg'] == 'quantile':
            op['args'] = [rng.choice([0.25, 0.5, 0.75])]
        elif op['agg'] in ('std', 'var') and rng.random() < 0.3:
            op['args'] = [0]
        ops.append(op)
    for agg in CUM:
        op = {'fam': 'cum', 'agg': agg}
        op.update(_target(rng))
        op['selpos'] = 'before'
        ops.append(op)
    for _ in range(4):
        op = {'fam': 'exp', 'agg': rng.choice(EXP + ['mean'])}
        op.update(_target(rng))
        if op['agg'] in ('var', 'std'):
            op['ddof'] = rng.choice([1, 1, 0, 2, 3])
        if op['agg'] not in ('size',) and rng.random() < 0.35:
            op['wexpr'] = rng.choice(['neg', 'add', 'mul', 'rsub'])     # element-wise step on the Expanding object itself
        ops.append(op)
    for _ in range(3):
        op = {'fam': 'ewm', 'agg': 'mean', 'par': rng.choice([{'com': 0.5}, {'com': 1}, {'com': 3}, {'span': 3}, {'span': 5}, {'span': 2}, {'span': 4}, {'span': 2.5},
                                                             {'alpha': 0.5}, {'alpha': 0.25}, {'halflife': 2}])}
        op.update(_target(rng))
        ops.append(op)
    for op in ops:
        op['pre'] = rng.choice(PRES)
        if op['src'] == 'series' and op['pre'] is not None:
            op['pre'] = ['x', '>', 0]
    return ops


def gen_cases(rng, tier):
    for ti in range(n_tables(tier)):
        tab = E.gen_table(rng, nan=(ti % 2 == 1), time=(ti % 4 < 2))
        n = len(tab['y'])
        nanpos = [i for i, v in enumerate(tab['x']) if v is None]
        ex = rng.choice(['empty', 'rows'])
        splits = [[n]]
        w = rng.choice([2, 3, 5])
        for style in (rng.choice(['random', 'nanend'] if nanpos else ['random']), rng.choice(['ones', 'lt', 'eq', 'gt']),
                      rng.choice(['random', 'nanend', 'lt'])):
            splits.append(E.gen_sizes(rng, n, style=style, w=w, nanpos=nanpos, max_batches=9))
        for op in gen_ops(rng, tab['t'] is not None, tier):
            if op['fam'] == 'roll' and op['win'][0] == 'n' and rng.random() < 0.5:
                op['win'] = ['n', w]
            for sizes in splits:
                yield {'tab': tab, 'sizes': sizes, 'ex': ex, 'op': op}


def check_case(case, ctx):
    ctx.begin_case()
    op = case['op']
    fam = op['fam']
    df, batches, tr = E.run_with_example_fallback(case, ctx)
    eff = [E.p_root(op, b) for b in batches]
    lens = [len(e) for e in eff]
    targets = [E.p_target(op, e) for e in eff]
    cls = E.input_class(targets, batch_end=fam in ('cum', 'roll'))
    label = E.op_label(op, targets[0])
    ctx.note('operations', label)
    ctx.note('input_classes', cls)
    for f in E.split_features(case['sizes'], lens, op['win'][1] if op.get('win') and op['win'][0] == 'n' else None):
        ctx.note('split_features', f)
    head = '%s%s, input class %s, example %s%s: batches %s' % (
        label, ' %s' % (op.get('args') or op.get('par') or '',), cls, case.get('ex'),
        ', upstream filter %s' % (op['pre'],) if op.get('pre') else '', E.show_batches(targets))
    if tr.build_error is not None:
        ctx.count('build_exception')
        ctx.violate('build-exception@%s:%s' % (label, cls), '%s cannot be built even on a non-empty example: %r'
                    % (label, tr.build_error), case)
        return 0
    root_full = E.p_root(op, df)
    if len(root_full) == 0:
        ctx.count('all_rows_filtered_not_compared')
        return 0
    with E.warnings.catch_warnings(), E.np.errstate(all='ignore'):
        E.warnings.simplefilter('ignore')
        exp_full = E.p_onepass(root_full, op)

    def tally(k_nonempty):
        ctx.count('cmp_total')
        ctx.count({'roll': 'cmp_rolling_' + (op['win'][0] if op.get('win') else ''), 'cum': 'cmp_cumulative',
                   'exp': 'cmp_expanding', 'ewm': 'cmp_ewm'}[fam])
        ctx.count('cmp_op_' + (op['agg'] if fam in ('roll', 'cum') else fam + '.' + op['agg']) + ('' if fam != 'roll' else '_rolling'))
        ctx.count('cmp_unsplit' if len(case['sizes']) == 1 else 'cmp_split')
        if 'nan' in cls:
            ctx.count('cmp_with_nan')
        if 'nan-at-batch-end' in cls:
            ctx.count('cmp_nan_at_batch_end')
        if 'empty-first-batch' in cls:
            ctx.count('cmp_after_empty_first_batch')

    # exceptions: only counted while nothing has been seen
    cum, raised = 0, False
    for k in range(len(batches)):
        cum += lens[k]
        err = tr.errs[k]
        if err is None:
            continue
        if cum == 0:
            ctx.count('exception_on_empty_prefix')
            ctx.note('exceptions_on_empty_prefix', '%s: %s' % (label, type(err).__name__))
            ctx.violate('exception-before-any-row@%s' % label, '%s -> batch %d (nothing but empty batches so far) raised %r; '
                        'pandas computes this on an empty frame' % (head, k + 1, err), case)
        else:
            raised = True
            ctx.violate('exception@%s:%s' % (label, cls), '%s -> batch %d raised %r although rows have been seen'
                        % (head, k + 1, err), case)
    nonempty = sum(1 for n_ in lens if n_ > 0)
    if fam in ('roll', 'cum'):
        pieces = [o for k in range(len(batches)) for o in tr.outs[k]]
        tally(nonempty)
        ctx.count('rows_compared', len(exp_full))
        if raised:
            return nonempty
        bad = [o for o in pieces if not isinstance(o, (E.pd.Series, E.pd.DataFrame))]
        if bad or not pieces:
            ctx.violate('shape-mismatch@%s:%s' % (label, cls), '%s -> emitted %s' % (head, [E.show(o, 80) for o in pieces]), case)
            return nonempty
        got = E.pd.concat(pieces) if len(pieces) > 1 else pieces[0]
        if len(got) != len(exp_full):
            ctx.violate('row-count@%s:%s' % (label, cls), '%s -> %d rows emitted in all (%s), pandas in one pass gives %d rows: %s'
                        % (head, len(got), ' | '.join(E.show(o, 150) for o in pieces), len(exp_full), E.show(exp_full)), case)
            return nonempty
        d = E.compare(got, exp_full, ordered=True)
        if d is not None:
            ctx.violate('%s@%s:%s' % (d[0], label, cls), '%s -> emitted %s, pandas in one pass gives %s (%s)'
                        % (head, ' | '.join(E.show(o, 150) for o in pieces), E.show(exp_full), d[1]), case)
        return nonempty
    # expanding / ewm: one value per batch
    seq = [E.show(tr.errs[k], 60) if tr.errs[k] is not None else ' '.join(E.show(o, 100) for o in tr.outs[k]) for k in range(len(batches))]
    compared, cum = 0, 0
    for k in range(len(batches)):
        cum += lens[k]
        if cum == 0:
            ctx.count('empty_prefix_not_compared')
            continue
        if tr.errs[k] is not None:
            continue
        tally(nonempty)
        ctx.count('rows_compared')
        if lens[k] > 0:
            compared += 1
        outs = tr.outs[k]
        if len(outs) != 1:
            ctx.violate('%s@%s:%s' % ('no-value' if not outs else 'several-values', label, cls),
                        '%s -> batch %d produced %d values' % (head, k + 1, len(outs)), case)
            continue
        exp = exp_full.iloc[cum - 1]
        got = outs[0]
        if fam == 'ewm':
            if hasattr(got, '__len__') and len(got) == 0:
                ctx.violate('empty-result@%s:%s' % (label, cls), '%s -> after batch %d an EMPTY object was emitted, pandas in one '
                            'pass gives %s at the last row of the prefix; emitted sequence %s' % (head, k + 1, E.show(exp), seq), case)
                continue
            got = E.last_row_values(got)
        d = E.compare(got, exp)
        if d is not None and fam == 'exp' and op['agg'] == 'sum':
            # Sum of no valid observation: streamz says 0 (like pandas .sum()), pandas expanding(min_periods=1) says NaN.
            # The same convention on both sides (min_periods=0) must then agree.
            alt = dict(op, agg='sum0')
            exp0 = E.p_onepass(root_full, alt).iloc[cum - 1]
            if E.compare(got, exp0) is None:
                ctx.count('sum_of_no_observation_0_vs_nan_normalised')
                d = None
        if d is not None:
            ctx.violate('%s@%s:%s' % (d[0], label, cls), '%s -> after batch %d emitted %s, pandas in one pass gives %s at the last '
                        'row of the prefix (%s); emitted sequence %s' % (head, k + 1, E.show(got), E.show(exp), d[1], seq), case)
    return compared


def _sample(case, compared):
    return {'case': case, 'observed': 'equal to the pandas one-pass result (%d non-empty batches)' % compared}


def run_shard(seed, tier, shard, nshards):
    return E.drive(PID, seed, tier, shard, nshards, lambda rng: gen_cases(rng, tier), check_case, sample_fn=_sample)


def replay(case):
    ctx = E.Ctx(PID)
    check_case(case, ctx)
    return ctx.violations()
