"""C16 -- failures reach the emitter, keep node state intact, are never
checkpointed.

Fault enumeration: for small generated programs of directly connected nodes,
a fault-free run counts the invocations of every user function (map / starmap /
filter / accumulate functions, key functions, sink functions); then *every*
single invocation is made to fail in its own run, plus random multi-fault sets.
Oracle per run, over the recorded history:
 (1) the very injected exception reaches the caller of emit (raised by the
     blocking emit -- through sync() when the pipeline is bound to the loop
     thread -- or raised by / carried by the awaitable in asynchronous mode);
     every emit without a failing invocation returns normally;
 (2) for the node whose function raised, its output sequence equals the
     reference node fed with its observed inputs minus the failing ones;
 (3) the completion signal of a failed element is never given.
"""
import random

from .. import funcs as F
from .. import model as M
from .. import progs, syncrun

PID = 'C16'
LEVEL = 'fault_enumeration'
RULE = ('small programs (<=7 nodes, <=8 inputs) from the synchronous catalogue; fault-free run enumerates user-function '
        'invocations; every single invocation fails in its own run (exhaustive over single faults of the program), plus '
        'random 2-3-fault sets; modes plain / plain-on-loop-thread (when a loop-needing node is present) / asynchronous; '
        'non-trivial = a fault was actually injected and a later input was processed by the failing node or the failing '
        'invocation had a stateful node; distinct by hash(program, inputs, mode, fault set)')
REQUIRED = ['faults_injected', 'exception_identity_checks', 'failing_node_state_checks', 'failed_element_signal_checks']
ASSUMPTIONS = ['reference semantics = DESIGN.md Appendix A', 'only directly connected (non-buffered) nodes']


def plan(tier):
    if tier == 'thorough':
        return {'shards': 16, 'timeout_s': 1700}
    return {'shards': 8, 'timeout_s': 280}


def n_programs(tier):
    return 2000 if tier == 'thorough' else 50


OPS = ['map', 'map', 'starmap', 'filter', 'accumulate', 'accumulate', 'partition', 'partition_unique',
       'sliding_window', 'unique', 'flatten', 'pluck', 'union', 'zip', 'combine_latest', 'zip_latest', 'slice']


def gen_program(rng, tier):
    g = progs.Gen(rng, ops=OPS, max_nodes=6, allow_feedback=False, allow_collect=False)
    prog = g.program()
    inputs = g.inputs(prog, max_len=8)
    for it in inputs:
        it[2] = 1
    mode = rng.choice(['plain', 'async'])
    return prog, inputs, mode


BYSTANDER_OPS = ('map', 'starmap', 'filter', 'accumulate', 'partition', 'partition_unique', 'sliding_window', 'unique',
                 'pluck', 'union', 'zip', 'combine_latest', 'slice')


class Injector:
    def __init__(self, faults, exc='exception', async_sinks=False):
        self.faults = faults            # {fn name: set(call idx)}
        self.calls = []
        self.fns = {}
        self.exc_class = F.FAULT_CLASSES[exc]
        self.async_sinks = async_sinks

    def wrap(self, nid, kind, fn):
        from .. import recorder as R
        name = '%s:%s' % (nid, kind)
        f = F.Faulty(name, fn, self.faults.get(name, ()), self.calls, exc_class=self.exc_class, log=R.CURRENT,
                     defer=(self.async_sinks and kind == 'sink'))
        self.fns[name] = f
        return f


def run_with_faults(prog, inputs, mode, faults, exc='exception', async_sinks=False, caller_loop=False):
    inj = Injector(faults, exc, async_sinks and mode == 'async')
    res = syncrun.run_case(prog, inputs, mode=mode, with_refs=True, fn_wrap=inj.wrap, caller_loop=caller_loop)
    res.inj = inj
    return res


def _chain_has(exc, wanted):
    seen = set()
    while exc is not None and id(exc) not in seen:
        if any(exc is w for w in wanted):
            return True
        seen.add(id(exc))
        exc = exc.__cause__ or exc.__context__
    return False


def check_run(case, res, counters):
    prog, inputs = case['prog'], case['inputs']
    viols, seen = [], set()

    def add(key, what):
        if key not in seen:
            seen.add(key)
            viols.append({'key': key, 'what': what, 'case': case})
    specs = {s['id']: s for s in prog['nodes']}
    log = res.log
    # ground truth: FAULT events written by the injector at the moment it raises
    cur = None
    faults_in_emit = {}
    for e in log.ev:
        if e[2] == 'ENTRY':
            cur = e[4]
        elif e[2] == 'FAULT':
            faults_in_emit.setdefault(cur, []).append(e)
    errs = dict(res.emit_errors)
    injected = 0
    for i in range(len(inputs)):
        exc = errs.get(i)
        want = [e[4] for e in faults_in_emit.get(i, [])]
        if want:
            injected += 1
            counters['exception_identity_checks'] = counters.get('exception_identity_checks', 0) + 1
            if exc is None:
                add('C16:fault-swallowed', 'emit #%d: invocation %s raised %s but emit returned normally'
                    % (i, want[0].uid, type(want[0]).__name__))
            elif not _chain_has(exc, want):
                add('C16:wrong-exception', 'emit #%d: injected %r, caller got %r' % (i, want, exc))
        elif exc is not None:
            add('C16:spurious-exception:%s' % type(exc).__name__, 'emit #%d raised %r without a failing invocation' % (i, exc))
    counters['faults_injected'] = counters.get('faults_injected', 0) + injected
    # a consumer that hands back an awaitable: the body behind it (where the injected failure sits) must have been run by
    # the time everything has settled -- an awaitable nobody awaits swallows the failure together with the element
    entry_pos = [(e[0], e[4]) for e in log.ev if e[2] == 'ENTRY']
    for name, fn in res.inj.fns.items():
        left = []
        for i, pos in sorted(getattr(fn, 'pending_bodies', {}).items()):
            emit_idx = max([k for p, k in entry_pos if p <= pos] or [None])
            if emit_idx in errs:
                continue        # the walk of that emit was aborted by a failure: what it had collected so far is dropped with it
            left.append(i)
        if left:
            counters['exception_identity_checks'] = counters.get('exception_identity_checks', 0) + 1
            add('C16:fault-swallowed:consumer-awaitable-never-awaited@%s' % specs.get(name.split(':')[0], {}).get('op', '?'),
                'calls %s of %s returned an awaitable that was never awaited%s' % (left[:6], name,
                 ' (call %d was to fail)' % [i for i in left if i in fn.fail][0] if any(i in fn.fail for i in left) else ''))
    if res.node_loop_bound and injected:
        counters['faults_transported_through_sync'] = counters.get('faults_transported_through_sync', 0) + injected
    if case.get('async_sinks') and injected:
        counters['faults_inside_sink_awaitables'] = counters.get('faults_inside_sink_awaitables', 0) + \
            sum(1 for e in log.ev if e[2] == 'FAULT' and specs.get(e[3], {}).get('op') in ('sink', 'sink_flush'))
    # (2) state of the failing node: the input being handled when its own function raised is removed
    ins = {}
    own_fail = {}
    for e in log.ev:
        if e[2] == 'IN':
            ins.setdefault(e[3], []).append([e[4], e[5], e[6], False])
        elif e[2] == 'FAULT':
            nid = e[3]
            if ins.get(nid) and specs.get(nid, {}).get('op') not in ('sink', 'sink_flush'):
                for rec in reversed(ins[nid]):
                    if not rec[3]:
                        rec[3] = True       # the most recent arrival is the one being handled (synchronous nodes)
                        break
                own_fail[nid] = own_fail.get(nid, 0) + 1
    outs = syncrun.node_outs(log)
    for nid, nfail in own_fail.items():
        spec = specs[nid]
        ups = list(spec.get('ups', []))
        mn, mups = M.standalone(spec, len(ups))
        for who, x, md, failed in ins[nid]:
            if failed:
                continue
            mn.update(x, mups[ups.index(who)], md)
        real = [syncrun._val(x) for x, _ in outs.get(nid, [])]
        exp = [syncrun._val(x) for x, _ in mn.out]
        counters['failing_node_state_checks'] = counters.get('failing_node_state_checks', 0) + 1
        later = sum(1 for rec in ins[nid] if not rec[3])
        res.stateful_checked = getattr(res, 'stateful_checked', 0) + (1 if later else 0)
        if real != exp:
            add('C16:state-after-failure@%s' % spec['op'],
                'node %s (%s): %d own failure(s); outputs %s, reference on the non-failing inputs %s'
                % (nid, spec['op'], nfail, real[:30], exp[:30]))
    # (2b) the other nodes of the run -- in particular the ancestors of the failing node, through whose update() the
    # exception travelled -- are not corrupted either: each of them delivers what the reference node delivers for the
    # inputs it was offered (an element whose push failed further down counts as handled by them).  Only nodes that emit
    # at most once per input: a node in the middle of several emissions is legitimately cut short by the exception.
    if any(e[2] == 'FAULT' for e in log.ev):
        for nid, spec in specs.items():
            if nid in own_fail or spec['op'] not in BYSTANDER_OPS or not ins.get(nid):
                continue
            ups = list(spec.get('ups', []))
            mn, mups = M.standalone(spec, len(ups))
            try:
                for who, x, md, failed in ins[nid]:
                    mn.update(x, mups[ups.index(who)], md)
            except Exception:
                continue
            real = [syncrun._val(x) for x, _ in outs.get(nid, [])]
            exp = [syncrun._val(x) for x, _ in mn.out]
            counters['bystander_node_state_checks'] = counters.get('bystander_node_state_checks', 0) + 1
            if real != exp:
                add('C16:bystander-state-after-failure@%s' % spec['op'],
                    'node %s (%s), none of whose own functions failed: inputs %s, outputs %s, reference %s'
                    % (nid, spec['op'], [syncrun._val(r[1]) for r in ins[nid]][:20], real[:30], exp[:30]))
    # (2c) zip_latest hands on every element of its lossless input exactly once and in order, also when the delivery of one
    # of several waiting elements failed: the others -- whose own emits had returned normally long before -- are still
    # waiting inside the node afterwards (and come out with the next arrival), they do not vanish with the failure
    if any(e[2] == 'FAULT' for e in log.ev):
        for nid, spec in specs.items():
            if spec['op'] != 'zip_latest' or not ins.get(nid):
                continue
            ups = list(spec.get('ups', []))
            arrived = [syncrun._val(x) for who, x, md, failed in ins[nid] if who == ups[0]]
            handed = [syncrun._val(x)[0] for x, _ in outs.get(nid, [])]
            counters['zip_latest_waiting_elements_checks'] = counters.get('zip_latest_waiting_elements_checks', 0) + 1
            still = getattr(res.nodes.get(nid), 'lossless_buffer', None)
            if handed != arrived[:len(handed)]:
                add('C16:bystander-waiting-elements-lost-or-reordered@zip_latest',
                    'node %s: lossless input delivered %s, handed on (first components) %s' % (nid, arrived[:30], handed[:30]))
            elif still is not None and len(handed) + len(still) != len(arrived):
                add('C16:bystander-waiting-elements-lost-or-reordered@zip_latest',
                    'node %s: lossless input delivered %d elements %s, %d were handed on and %d are still waiting in the node: '
                    'the others vanished with the failure of a consumer' % (nid, len(arrived), arrived[:30], len(handed), len(still)))
    # (3) failed elements are never signalled
    failed_dicts = {}           # id(dict) -> all failures concerned metadata-less data (inherited attribution)
    for e in log.ev:
        if e[2] == 'FAULT':
            for did in e[5]:
                failed_dicts[did] = failed_dicts.get(did, True) and e[6] == 'flatten'
    for did, (j, ref, d) in res.refs.items():
        if did in failed_dicts:
            counters['failed_element_signal_checks'] = counters.get('failed_element_signal_checks', 0) + 1
            if ref.triggers:
                if failed_dicts[did]:
                    add('C16:failed-element-signalled:deferred-failure-of-metadata-less-flatten-piece',
                        'element %s: a non-last piece produced by flatten (which carries no metadata) failed inside a '
                        'coroutine-style node, the failure was carried by a future, the last piece went through and '
                        'the completion signal was given (by %s)' % (ref.uid, ref.trigger_blame[0]))
                else:
                    add('C16:failed-element-signalled@%s' % (ref.trigger_blame[0].split('.')[0]),
                        'element %s failed but its completion signal was given by %s' % (ref.uid, ref.trigger_blame[0]))
    return viols, injected


def enumerate_faults(prog, inputs, mode, async_sinks=False):
    res = run_with_faults(prog, inputs, mode, {}, 'exception', async_sinks)
    if res.hung or res.emit_errors:
        return None
    return list(res.inj.calls)


def gen_timed_case(rng):
    """source -> [map] -> partition(n, timeout[, key]) -> consumer that fails on some calls, in virtual time"""
    from .. import aprogs
    nodes = [{'id': 'n0', 'op': 'source', 'ups': []}]
    last = 'n0'
    if rng.random() < 0.3:
        nodes.append({'id': 'm0', 'op': 'map', 'ups': [last], 'f': 'inc'})
        last = 'm0'
    T = rng.choice([0.5, 1.0, 2.0])
    nodes.append({'id': 'tw', 'op': 'partition', 'ups': [last], 'n': rng.choice([2, 2, 3, 4]), 'timeout': T,
                  'key': rng.choice([None, None, 'mod2'])})
    n_calls = 8
    nodes.append({'id': 'sk', 'op': 'sink', 'ups': ['tw'], 'kind': rng.choice(['sync', 'sync', 'coro', 'tornado']),
                  'svc': [rng.choice([0, 0, 0.25])], 'fail': sorted(rng.sample(range(n_calls), rng.choice([1, 1, 2])))})
    grid = [0, 0, 0.25, 0.5, 0.5, 1.0, 1.0, 2.0, 3.0]
    prods = [[[rng.choice(grid), 'n0', rng.randrange(6), 1] for _ in range(rng.randrange(3, 12))]]
    return {'timed': True, 'prog': {'nodes': nodes, 'extra_edges': []}, 'producers': prods, 'awaiting': True}


def check_timed(case, counters, sets):
    """A failing consumer behind a time-based holder: the holder goes on exactly as if the consumer had not failed (its
    observed outputs are judged against its observed inputs: every arrival in exactly one batch, full batches at once,
    partial ones exactly one timeout after their first member -- a timer of a partition that has already left must
    not fire), and every exception an emit raises is the injected one."""
    from .. import asyncrun
    ar = asyncrun.run_async(case)
    if ar.stop in ('iter-cap', 'vt-cap', 'watchdog'):
        case['_stop'] = '%s at vt=%s after %d events %s' % (ar.stop, getattr(ar, 'end_vt', None), len(ar.log.ev), getattr(ar, 'stop_detail', ''))
        return None, [], 0
    viols, seen = [], set()

    def add(key, what):
        if key not in seen:
            seen.add(key)
            viols.append({'key': key, 'what': what, 'case': case})
    n_failed = sum(1 for e in ar.log.ev if e[2] == 'FAILED')
    for i, exc in ar.emit_exc.items():
        if not isinstance(exc, F.InjectedFault) and not isinstance(getattr(exc, '__cause__', None), F.InjectedFault):
            add('C16:spurious-exception:%s' % type(exc).__name__, 'emit #%d raised %r; injected failures only at consumer calls %s'
                % (i, exc, case['prog']['nodes'][-1]['fail']))
    for name, msg, exc in ar.errors:
        if exc is not None and not isinstance(exc, F.InjectedFault):
            add('C16:loop-exception:%s' % type(exc).__name__, '%s %s %r' % (name, msg[:200], exc))
    spec = [s for s in case['prog']['nodes'] if s['id'] == 'tw'][0]
    ins, outs = asyncrun.by_node(ar.log)

    def bad(clause, nid, detail):
        add('C16:holder-after-consumer-failure:%s@partition+timeout' % clause, str(detail))
    if n_failed:
        counters['timed_holder_checks_after_consumer_failure'] = counters.get('timed_holder_checks_after_consumer_failure', 0) + 1
        asyncrun._check_timeout_partition(spec, ins.get('tw', []), outs.get('tw', []), bad, False, ar)
    counters['faults_injected'] = counters.get('faults_injected', 0) + n_failed
    sets.setdefault('modes', set()).add('virtual-time+timeout-partition')
    return ar, viols, n_failed


def check_case(case, counters, sets):
    if case.get('timed'):
        return check_timed(case, counters, sets)
    res = run_with_faults(case['prog'], case['inputs'], case['mode'], {k: set(v) for k, v in case['faults'].items()},
                          case.get('exc', 'exception'), case.get('async_sinks', False), case.get('caller_loop', False))
    if res.hung:
        return None, [], 0
    res.node_loop_bound = any(n.loop is not None for n in res.nodes.values()) and case['mode'] == 'plain'
    viols, injected = check_run(case, res, counters)
    for s in case['prog']['nodes']:
        sets.setdefault('node_types_seen', set()).add(s['op'])
    sets.setdefault('modes', set()).add(case['mode'] + ('+loop-thread' if res.node_loop_bound else '') + ('+async-sinks' if case.get('async_sinks') else '')
                                        + ('+caller-runs-its-own-loop' if res.node_loop_bound and case.get('caller_loop') else ''))
    sets.setdefault('fault_exception_classes', set()).add(case.get('exc', 'exception'))
    return res, viols, injected


def run_shard(seed, tier, shard, nshards):
    rng = random.Random('%s-%d-%d-%s' % (PID, seed, shard, tier))
    out = {'evaluations': 0, 'keys': [], 'violations': [], 'samples': [], 'counters': {},
           'sets': {}, 'inconclusive': []}
    C = out['counters']
    for k in range(n_programs(tier) * 4):
        case = gen_timed_case(rng)
        res, viols, injected = check_case(case, C, out['sets'])
        out['evaluations'] += 1
        if res is None:
            out['inconclusive'].append('timed case %d: budget (%s)' % (k, case.get('_stop')))
            continue
        if injected:
            out['keys'].append(progs.prog_key(case, None))
        out['violations'].extend(viols)
    for k in range(n_programs(tier)):
        prog, inputs, mode = gen_program(rng, tier)
        async_sinks = mode == 'async' and rng.random() < 0.5
        calls = enumerate_faults(prog, inputs, mode, async_sinks)
        if calls is None:
            # without any injected failure an emit raised (or did not return): the former is a verdict, not a reason to skip
            case = {'prog': prog, 'inputs': inputs, 'mode': mode, 'faults': {}, 'async_sinks': async_sinks, 'exc': 'exception'}
            res, viols, _ = check_case(case, C, out['sets'])
            out['evaluations'] += 1
            out['violations'].extend(viols)
            if res is None or not viols:
                out['inconclusive'].append('program %d: fault-free run failed' % k)
            continue
        C['programs'] = C.get('programs', 0) + 1
        C['single_fault_points_enumerated'] = C.get('single_fault_points_enumerated', 0) + len(calls)
        fault_sets = [{name: [i]} for (name, i) in calls]
        for _ in range(min(6, len(calls))):
            fs = {}
            for name, i in rng.sample(calls, min(len(calls), rng.choice([2, 3]))):
                fs.setdefault(name, []).append(i)
            fault_sets.append(fs)
        classes = list(F.FAULT_CLASSES)
        for n_fs, fs in enumerate(fault_sets):
            case = {'prog': prog, 'inputs': inputs, 'mode': mode, 'faults': fs, 'async_sinks': async_sinks,
                    'exc': classes[(n_fs + k) % len(classes)], 'caller_loop': mode == 'plain' and (n_fs + k) % 3 == 0}
            res, viols, injected = check_case(case, C, out['sets'])
            out['evaluations'] += 1
            if res is None:
                out['inconclusive'].append('program %d: blocking emit did not return' % k)
                continue
            if injected:
                out['keys'].append(progs.prog_key(prog, [inputs, mode, fs, case['exc'], async_sinks]))
            out['violations'].extend(viols)
            if len(out['samples']) < 2 and injected and getattr(res, 'stateful_checked', 0):
                out['samples'].append({'program': [' '.join('%s=%s' % kv for kv in s.items() if kv[1] not in (None, [], {})) for s in prog['nodes']],
                                       'inputs': inputs, 'mode': mode, 'fault_set': fs, 'exception_class': case['exc'], 'async_sinks': async_sinks,
                                       'emit_results': [[i, repr(e)] for i, e in res.emit_errors]})
    return out


def replay(case):
    _, viols, _ = check_case(case, {}, {})
    return viols
