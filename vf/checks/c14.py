"""C14 -- latest delivers an in-order subsequence ending with the newest element.

Virtual-time runs of source -> [map] -> latest -> [map] -> slow consumer with arrivals placed while the consumer
is idle, busy, several during one busy period, and two producers in the same loop turn.  Oracle on the history of
the latest node (elements identified by the identity of their metadata dict):
 subsequence   what it emits is a subsequence of what it received, in order, no element twice (two-pointer);
 newest-last   once input has stopped and the loop is quiescent, the most recently received element has been emitted.
"""
import random

from .. import aprogs, asyncrun, progs

PID = 'C14'
LEVEL = 'exploration'
RULE = ('source(s)->[map]->latest->[map]->consumer(sync|coroutine|Future, service time {0,.25,.5,1,2}); 1-3 producers, '
        'gaps {0,.25,.5,1,3}, awaiting or not; non-trivial = at least one element was skipped or at least two arrivals '
        'fell into one busy period; distinct by hash(case)')
REQUIRED = ['subsequence_checks', 'newest_delivered_checks']
ASSUMPTIONS = ['bounded progress: "eventually delivered" is decided at loop quiescence in virtual time']
INCONCLUSIVE_BUDGET = 0.03


def plan(tier):
    if tier == 'thorough':
        return {'shards': 16, 'timeout_s': 1700}
    return {'shards': 8, 'timeout_s': 280}


def n_cases(tier):
    return 80000 if tier == 'thorough' else 600


def one_case(rng, tier):
    nodes = [{'id': 'n0', 'op': 'source', 'ups': []}]
    last = 'n0'
    plain = rng.random() < 0.5          # no arithmetic around the node: elements may be any object, also None / falsy
    if not plain and rng.random() < 0.5:
        nodes.append({'id': 'm0', 'op': 'map', 'ups': [last], 'f': 'inc'})
        last = 'm0'
    elif not plain and rng.random() < 0.4:
        # a diamond: every element reaches the node twice within one call, with the very same metadata list
        nodes.append({'id': 'ma', 'op': 'map', 'ups': [last], 'f': 'inc'})
        nodes.append({'id': 'mb', 'op': 'map', 'ups': [last], 'f': 'dbl'})
        nodes.append({'id': 'un', 'op': 'union', 'ups': ['ma', 'mb']})
        last = 'un'
    feeder = last
    nodes.append({'id': 'lt', 'op': 'latest', 'ups': [last]})
    last = 'lt'
    if not plain and rng.random() < 0.5:
        nodes.append({'id': 'm1', 'op': 'map', 'ups': [last], 'f': 'ident'})
        last = 'm1'
    g = aprogs.AGen(rng)
    svc = g._svc()
    if rng.random() < 0.7 and svc == [0]:
        svc = [rng.choice([0.5, 1.0, 2.0])]
    if rng.random() < 0.15:
        # a one-shot consumer next to the main one (connected first): it removes itself from the pipeline inside one of its
        # calls, i.e. while the node is handing an element to its consumers
        nodes.append({'id': 'os', 'op': 'sink', 'ups': [last], 'kind': 'sync', 'svc': [0], 'detach_at': rng.choice([0, 0, 1, 2])})
    nodes.append({'id': 'sk', 'op': 'sink', 'ups': [last], 'kind': rng.choice(['coro', 'future', 'sync', 'tornado', 'awaitable']), 'svc': svc})
    prog = {'nodes': nodes, 'extra_edges': []}
    prods = []
    for p in range(rng.choice([1, 1, 2, 3])):
        prods.append([[rng.choice(aprogs.GAP_GRID + [-1, -2, -3, -4, 0.5, 0.5]), 'n0', (None if plain and rng.random() < 0.15 else rng.randrange(50)), 1]
                      for _ in range(rng.randrange(1, 8))])
    if rng.random() < 0.2:
        # input stops by the node being disconnected from its upstream (possibly while the consumer is still busy with an
        # earlier element): what it has received by then must still come out
        prods[0].append([rng.choice([0, 0, -1, -2, 0.25, 0.5]), '!disconnect', [feeder, 'lt'], 0])
    case = {'prog': prog, 'producers': prods, 'awaiting': rng.random() < 0.5}
    if rng.random() < 0.2:
        case['t0'] = 1.7e9          # a clock that reads like time.time(), not like a stopwatch
    return case


def check_case(case, counters, sets):
    case.setdefault('_event_cap', 20000)
    ar = asyncrun.run_async(case)
    capped = ar.stop in ('iter-cap', 'vt-cap', 'watchdog')      # the safety clauses are still decidable on the prefix
    viols, seen = [], set()

    def add(key, what):
        if key not in seen:
            seen.add(key)
            viols.append({'key': key, 'what': what, 'case': case})
    for name, msg, exc in ar.errors:
        add('C14:loop-exception:%s' % (type(exc).__name__ if exc is not None else 'log'), '%s %s %r' % (name, msg[:200], exc))
    for i, exc in ar.emit_exc.items():
        add('C14:emit-raised:%s' % type(exc).__name__, 'emit #%d raised %r' % (i, exc))
    ins, outs = asyncrun.by_node(ar.log)
    I, O = ins.get('lt', []), outs.get('lt', [])
    arr = [(tuple(asyncrun._mdids(e[6])), asyncrun._v(e[5])) for e in I]
    dl = [(tuple(asyncrun._mdids(e[5])), asyncrun._v(e[4])) for e in O]
    counters['subsequence_checks'] = counters.get('subsequence_checks', 0) + 1
    j = 0
    ok = True
    for d in dl:
        while j < len(arr) and arr[j] != d:
            j += 1
        if j == len(arr):
            ok = False
            break
        j += 1
    if not ok:
        if len(set(dl)) < len(dl):
            add('C14:duplicate-delivery@latest', 'received %s, delivered %s' % ([v for _, v in arr], [v for _, v in dl]))
        else:
            add('C14:not-a-subsequence@latest', 'received %s, delivered %s' % ([v for _, v in arr], [v for _, v in dl]))
    if capped and not viols:
        return ar, None
    if arr and not capped and not ar.pending_emits and ar.producers_done:
        counters['newest_delivered_checks'] = counters.get('newest_delivered_checks', 0) + 1
        if not dl or dl[-1] != arr[-1]:
            add('C14:lost-final-element@latest', 'loop %s; received %s (last at t=%s), delivered %s (last at t=%s)'
                % (ar.stop, [v for _, v in arr], I[-1][1], [v for _, v in dl], O[-1][1] if O else None))
    ar.interesting = len(dl) < len(arr) or len(arr) >= 3
    sets.setdefault('interleaving_signatures', set()).add(asyncrun.signature(ar.log))
    counters['events_observed'] = counters.get('events_observed', 0) + len(ar.log.ev)
    if any(e[2] == 'EDIT' and e[4] == 'self-detach' for e in ar.log.ev):
        counters['runs_with_a_consumer_detaching_itself_during_delivery'] = counters.get('runs_with_a_consumer_detaching_itself_during_delivery', 0) + 1
    if any(e[2] == 'EDIT' and e[4] != 'self-detach' for e in ar.log.ev):
        counters['runs_with_disconnect_of_the_input'] = counters.get('runs_with_disconnect_of_the_input', 0) + 1
    counters['elements_skipped_by_latest'] = counters.get('elements_skipped_by_latest', 0) + max(0, len(arr) - len(dl))
    ar.arr, ar.dl = arr, dl
    return ar, viols


THREADED_CHILD = r"""
import json, os, sys, time
sys.path.insert(0, os.environ['STREAMZ_SRC'])
sys.path.insert(1, '/verif')
case = json.loads(sys.argv[1])
from streamz import Stream
from vf.vloop import private_plain_loop
src = Stream()
node = src.latest()
got = []
ms = case['sink_ms'] / 1000.0
def consumer(x):
    if ms:
        time.sleep(ms)
    got.append(x)
node.sink(consumer)
n = case['n']
with private_plain_loop():
    for x in range(n):
        src.emit(x, asynchronous=True)
        g = case['gaps'][x % len(case['gaps'])]
        if g:
            time.sleep(g / 1000.0)
t0 = time.time()
while not (got and got[-1] == n - 1) and len(got) < 200 and time.time() - t0 < 8:
    time.sleep(0.02)
time.sleep(0.05)
print('RESULT ' + json.dumps(got[:200]), flush=True)
os._exit(0)
"""


def check_threaded(case, counters, sets):
    """latest in a blocking-mode pipeline (loop in the background thread), fed from the caller's thread without hopping onto
    the loop (emit(x, asynchronous=True)): update() then runs on a thread that is not the loop's, and the forwarding
    coroutine has to be woken across threads.  Real time; verdict on the delivered sequence only.  Runs in a child process:
    a forwarding loop that spins (a slot that is never cleared) would otherwise hog this process for good."""
    import json
    import os
    import subprocess
    import sys
    n = case['n']
    try:
        r = subprocess.run([sys.executable, '-c', THREADED_CHILD, json.dumps(case)], capture_output=True, timeout=60,
                           env=dict(os.environ, STREAMZ_SRC=os.environ.get('STREAMZ_SRC', '/repo')))
    except subprocess.TimeoutExpired:
        return None
    line = [ln for ln in r.stdout.decode('utf8', 'replace').splitlines() if ln.startswith('RESULT ')]
    if not line:
        return None
    got = json.loads(line[-1][7:])
    viols = []
    counters['threaded_runs'] = counters.get('threaded_runs', 0) + 1
    if any(b <= a for a, b in zip(got, got[1:])) or any(x not in range(n) for x in got):
        viols.append({'key': 'C14:not-a-subsequence@latest-fed-from-another-thread', 'what': 'sent 0..%d, delivered %s' % (n - 1, got[:40]), 'case': case})
    elif not got or got[-1] != n - 1:
        viols.append({'key': 'C14:lost-final-element@latest-fed-from-another-thread',
                      'what': 'sent 0..%d from the caller thread, input stopped, 8 s later: delivered %s' % (n - 1, got), 'case': case})
    return viols


def run_shard(seed, tier, shard, nshards):
    rng = random.Random('%s-%d-%d-%s' % (PID, seed, shard, tier))
    out = {'evaluations': 0, 'keys': [], 'violations': [], 'samples': [], 'counters': {},
           'sets': {}, 'inconclusive': []}
    for k in range(30 if tier == 'thorough' else 3):
        case = {'threaded': True, 'n': rng.randrange(2, 10), 'sink_ms': rng.choice([0, 2, 10, 30]),
                'gaps': [rng.choice([0, 0, 1, 5, 20]) for _ in range(3)]}
        v = check_threaded(case, out['counters'], out['sets'])
        out['evaluations'] += 1
        if v is None:
            out['inconclusive'].append('threaded case %d: child gave no result' % k)
            continue
        out['violations'].extend(v)
        out['keys'].append(progs.prog_key(case, None))
    for k in range(n_cases(tier)):
        case = one_case(rng, tier)
        ar, viols = check_case(case, out['counters'], out['sets'])
        out['evaluations'] += 1
        if viols is None:
            out['inconclusive'].append('case %d: %s' % (k, ar.stop))
            continue
        if ar.interesting:
            out['keys'].append(progs.prog_key(case, None))
        out['violations'].extend(viols)
        if len(out['samples']) < 2 and len(ar.dl) < len(ar.arr):
            out['samples'].append({'case': case, 'received': [v for _, v in ar.arr], 'delivered': [v for _, v in ar.dl]})
    return out


def replay(case):
    if case.get('threaded'):
        return check_threaded(case, {}, {}) or []
    _, viols = check_case(case, {}, {})
    return viols or []
