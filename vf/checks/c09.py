"""C09 -- Kafka batches: gap-free offsets, commit after processing, at-least-once.

The real FromKafkaBatched / get_message_batch code runs unmodified on the virtual-time loop on top of an in-memory
stand-in for the confluent_kafka client (vf/kafka_fake.py) whose broker object survives "process" restarts and
journals every client call.  Histories: messages appended to partitions before and between polls, optional partition
added with refresh_partitions, max_batch_size in {1,2,3,10}, reset earliest/latest, consumers sync / coroutine / Future
with per-partition in-order completion (the property's proviso), and a crash after the k-th recorded event (the loop
is simply not stepped any further: pending callbacks, including pending commits, are lost) followed by a restart with
the same group id on the same broker.  Oracle over journal + consumer history:
 ranges   per partition the emitted (low, high) ranges are contiguous, start at the committed offset (else the reset
          position), stay below the high watermark seen by the poll, are no longer than max_batch_size, and the batch
          handed to the consumer is exactly the broker's messages low..high;
 commit   at every commit(o) -- the only points where durable state changes, so this decides every crash point of
          the run -- every message of that partition below o (from the group's start position) has been completely
          processed, and o is the end+1 of a batch that was handed out;
 restart  (reset=earliest) after crash + restart + quiescence every message is either completely processed before the
          crash or delivered again after it.
"""
import asyncio
import random

from .. import kafka_fake, progs
from .. import recorder as R
from ..vloop import virtual_env

PID = 'C09'
LEVEL = 'fault_enumeration'
RULE = ('histories: 1-3 partitions, 0-6 pre-existing and 0-14 later messages at virtual instants around the 1 s polls, '
        'max_batch_size {1,2,3,10}, reset {earliest, latest}, keys on/off, optional partition added mid-run, 0-2 transient '
        'failures of the committed-offset fetch at every (re)start, consumer '
        'sync/coroutine/Future with service times {0,.5,1.5,3}; quick: each history is run uninterrupted and with crashes '
        'at 4 sampled event indices; thorough: crash after EVERY recorded event of short histories; non-trivial = >=2 '
        'batches emitted and >=1 commit journalled; distinct by hash(history, crash point)')
REQUIRED = ['range_checks', 'commit_points_checked', 'restart_runs', 'messages_accounted_after_restart']
ASSUMPTIONS = ['the in-memory client is faithful for the calls used (poll/assign/get_watermark_offsets/committed/commit/'
               'list_topics, offset -1001 = nothing committed; len(message) == len(value))',
               'batches of one partition complete in order (enforced by the harness consumer)']
INCONCLUSIVE_BUDGET = 0.05


def plan(tier):
    if tier == 'thorough':
        return {'shards': 16, 'timeout_s': 1700}
    return {'shards': 8, 'timeout_s': 280}


def n_histories(tier):
    return 180 if tier == 'thorough' else 30


def gen_history(rng, tier):
    nparts = rng.choice([1, 1, 2, 3])
    h = {'nparts': nparts, 'max_batch': rng.choice([1, 2, 3, 10]), 'reset': rng.choice(['earliest', 'earliest', 'latest']),
         'keys': rng.random() < 0.3, 'pre': [rng.randrange(0, 7) for _ in range(nparts)],
         # offsets without a message (transaction markers, compacted records): always directly followed by a real message
         'hole_rate': rng.choice([0, 0, 0.25, 0.5]),
         'produce': [], 'add_partition_at': None, 'npartitions_arg': rng.random() < 0.5,
         'sink': {'kind': rng.choice(['sync', 'coro', 'coro', 'future']), 'svc': [rng.choice([0, 0.5, 1.5, 3.0]) for _ in range(3)]},
         'map': rng.random() < 0.5, 'committed_failures': rng.choice([0, 0, 0, 1, 2])}
    t = 0.0
    for _ in range(rng.randrange(0, 15 if tier == 'thorough' else 10)):
        t += rng.choice([0, 0, 0.25, 0.5, 1.0, 1.0, 2.5])
        h['produce'].append([round(t, 3), rng.randrange(nparts), int(rng.random() < h['hole_rate'])])
    if rng.random() < 0.25:
        h['add_partition_at'] = round(rng.choice([0.5, 1.5, 3.0]), 2)
        h['npartitions_arg'] = rng.random() < 0.4      # the caller may still state the original number of partitions
        for _ in range(rng.randrange(1, 4)):
            h['produce'].append([h['add_partition_at'] + rng.choice([0.1, 1.0, 2.0]), nparts, int(rng.random() < h['hole_rate'])])
        h['produce'].sort()
    if rng.random() < 0.15:
        # fetching some batches fails (transient KafkaException in get_message_batch): such a batch is never processed, so
        # its end offset must never be committed; what is promised beyond that presupposes batches completing in order
        h['fetch_failures'] = sorted(rng.sample(range(8), rng.choice([1, 1, 2])))
    if h['reset'] == 'latest' and rng.random() < 0.4:
        h['reset_given'] = False        # 'auto.offset.reset' left out of the parameters: the documented default is 'latest'
    if rng.random() < 0.3:
        h['same_params_dict'] = True    # the restart happens in the same process and re-uses the very same parameter dict
    if rng.random() < 0.3:
        # the caller spells out librdkafka's default in its parameters: the source must still take over the commits itself
        h['user_autocommit'] = rng.choice(['true', True, 'True'])
    if rng.random() < 0.3:
        # transient failures of later committed() look-ups too (the one for partitions found by refresh_partitions)
        h['committed_fail_at'] = sorted(rng.sample(range(1, 6), rng.choice([1, 2])))
    if h['add_partition_at'] is not None and h['npartitions_arg'] and rng.random() < 0.6:
        # exactly the look-up made for the partitions that refresh_partitions discovers right after a restart
        h['committed_fail_at'] = [1 + h['committed_failures']]
    if rng.random() < 0.25:
        # the consumer pauses the source from inside one of its calls and it is started again a moment later, well before the
        # polling loop wakes up from its sleep: the loop never notices and simply carries on (offsets stay gap-free, batches of
        # the same poll round that have been scheduled but not yet emitted are still emitted)
        h['stopstart'] = [[k, rng.choice([0.25, 0.5, -1, -3])] for k in sorted(rng.sample(range(6), rng.choice([1, 2])))]
    if rng.random() < 0.25:
        # the watermark look-up of the polling loop (100 ms timeout) fails now and then: the partition is skipped in that round
        h['wm_fail_at'] = sorted(rng.sample(range(0, 7), rng.choice([1, 1, 2, 3])))
    if rng.random() < 0.25:
        # librdkafka's other spellings of the two reset policies
        h['reset_spelling'] = rng.choice(['largest', 'end'] if h['reset'] == 'latest' else ['smallest', 'beginning'])
        h.pop('reset_given', None)
    if rng.random() < 0.2:
        # poll() hands the fetch an error event now and then: not a message, the fetch goes on polling
        h['error_polls'] = sorted(rng.sample(range(0, 30), rng.choice([1, 2, 3])))
    if rng.random() < 0.2:
        # some messages have an empty payload (b'') or none at all (a tombstone): they are messages like any other
        h['empty'] = [rng.choice([0.15, 0.3, 0.6]), rng.randrange(1000), rng.choice(['b', 'none', 'mix'])]
    h['pre_holes'] = [[int(rng.random() < h['hole_rate']) for _ in range(n)] for n in h['pre']]
    return h


TOPIC = 'topic'


def run_incarnation(broker, h, crash_at=None, preload=False):
    """one 'process': returns dict(log=..., crashed=bool)"""
    from streamz import Stream
    import streamz.sources as _ssrc
    import time as _time
    import types as _types
    kafka_fake.install(broker)
    # the blocking fetch sleeps in real time between polls: nothing can happen meanwhile (it blocks the loop), so do not wait
    _ssrc.time = _types.SimpleNamespace(time=_time.time, sleep=lambda s: None)
    try:
        return _run_incarnation(Stream, broker, h, crash_at, preload)
    finally:
        _ssrc.time = _time


def _run_incarnation(Stream, broker, h, crash_at, preload):
    out = {}
    with virtual_env() as env:
        loop = env.loop
        with R.recording(env.now) as log:
            broker.log = log
            log.add('KAFKA', 'broker', 'incarnation_start')
            params = {'bootstrap.servers': 'fake', 'group.id': 'g', 'auto.offset.reset': h.get('reset_spelling', h['reset'])}
            if h.get('reset_given') is False:
                del params['auto.offset.reset']
            if h.get('user_autocommit') is not None:
                params['enable.auto.commit'] = h['user_autocommit']
            if h.get('same_params_dict'):
                params = broker.__dict__.setdefault('_user_params', params)
            kw = {}
            if h['npartitions_arg']:
                kw['npartitions'] = h['nparts']
            node = Stream.from_kafka_batched(TOPIC, params, poll_interval=1.0, max_batch_size=h['max_batch'],
                                             keys=h['keys'], refresh_partitions=h['add_partition_at'] is not None,
                                             asynchronous=True, **kw)
            src = node.upstreams[0]
            log.name(src, 'src')
            log.name(node, 'fetch')
            last = node
            if h['map']:
                last = node.map(lambda x: x)
                log.name(last, 'map')
            tail = {}
            kind = h['sink']['kind']
            svc = h['sink']['svc']
            kcount = {'n': 0}

            def vals(batch):
                """the identities b'p<partition>-o<offset>' of the messages of a batch: their values, except that messages
                with an empty value are identified through the range the batch was fetched for"""
                raw = [(m['value'] if isinstance(m, dict) else m) for m in batch]
                if all(raw):
                    return raw
                for e in reversed(log.ev):
                    if e[2] == 'IN' and e[3] == 'fetch':
                        _, topic, p, keys, low, high = e[5]
                        ids = [('p%d-o%d' % (p, o)).encode() for o in range(low, high + 1) if not is_hole(broker, p, o)]
                        if len(ids) == len(raw) and all(v == i for v, i in zip(raw, ids) if v):
                            return ids
                        break
                return [v for v in raw if v]

            def part_of(batch):
                ids = vals(batch)
                if not ids:
                    return None         # a range made of message-less offsets only
                return int(ids[0].split(b'-')[0][1:])

            ss = {int(k): d for k, d in h.get('stopstart', [])}
            ncall = {'n': 0}
            loops = {'n': 0}
            orig_poll = src.poll_kafka

            def poll_logged():
                loops['n'] += 1
                return orig_poll()
            src.poll_kafka = poll_logged

            def lifecycle():
                k = ncall['n']
                ncall['n'] += 1
                if k in ss:
                    log.add('KAFKA', 'broker', 'stop_then_start', ss[k])
                    src.stop()
                    if ss[k] > 0:
                        loop.call_later(ss[k], src.start)
                    else:
                        async def later(n=int(-ss[k])):
                            for _ in range(n):
                                await asyncio.sleep(0)
                            src.start()
                        asyncio.ensure_future(later())

            if kind == 'sync':
                def sink(batch):
                    ids = vals(batch)
                    log.add('START', 'sk', ids)
                    lifecycle()
                    log.add('END', 'sk', ids)
            else:
                async def body(ids, k, prevs):
                    for prev in prevs:
                        await prev.wait()
                    d = svc[k % len(svc)]
                    if d:
                        await asyncio.sleep(d)
                    log.add('END', 'sk', ids)

                def sink(batch):
                    k = kcount['n']
                    kcount['n'] += 1
                    ids = vals(batch)
                    log.add('START', 'sk', ids)
                    lifecycle()
                    p = int(ids[0].split(b'-')[0][1:]) if ids else None
                    done = asyncio.Event()
                    if p is not None:
                        prevs = [x for x in (tail.get(p), tail.get('empty')) if x is not None]
                        tail[p] = done
                    else:
                        # a batch without messages does not tell its partition: it completes after everything handed over
                        # before it, and everything handed over later completes after it
                        prevs = list(tail.values())
                        tail.clear()
                        tail['empty'] = done

                    async def run():
                        try:
                            await body(ids, k, prevs)
                        finally:
                            done.set()
                    if kind == 'coro':
                        return run()
                    return asyncio.ensure_future(run())
            last.sink(sink)
            t0 = loop.time()
            if not preload:
                for t, p, *hole in h['produce']:
                    loop.call_later(t, _produce, broker, p, h['keys'], bool(hole and hole[0]))
                if h['add_partition_at'] is not None:
                    loop.call_later(h['add_partition_at'], broker.add_partition)
            node.start()
            horizon = (h['produce'][-1][0] if h['produce'] and not preload else 0) + 6 + 4 * (sum(h['pre']) + len(h['produce'])) * (max(svc) + 0.1) * (2 if h.get('hole_rate') else 1)
            crashed = False
            if crash_at is None:
                reason = loop.drive(until_vt=horizon, max_iters=400000)
                out['reason'] = reason
            else:
                n_it = 0
                while len(log.ev) < crash_at and loop.time() < horizon and n_it < 200000:
                    loop.drive(until_vt=horizon, max_iters=1)
                    n_it += 1
                crashed = len(log.ev) >= crash_at
                out['reason'] = 'crash' if crashed else 'ended-before-crash-point'
            out['log'] = log
            out['poll_loops'] = loops['n']
            out['errors'] = list(env.errors)
            out['crashed'] = crashed
            broker.log = None
    return out


def _produce(broker, p, keys, hole=False):
    if p < len(broker.logs):
        broker.produce(p, key=(b'k' if keys else None), hole_before=hole)


def is_hole(broker, p, o):
    return o < len(broker.logs[p]) and broker.logs[p][o] is None


def check_ranges(h, inc, broker, add, counters, group_start):
    log = inc['log']
    per = {}
    wm = {}
    committed0 = dict(inc['committed_at_start'])
    first_wm = {}
    added = set()
    for e in log.ev:
        if e[2] == 'KAFKA':
            if e[4] == 'add_partition':
                added.add(e[5])
        if e[2] == 'OUT' and e[3] == 'src':
            _, topic, p, keys, low, high = e[4]
            per.setdefault(p, []).append((low, high, e))
    for p, rs in per.items():
        counters['range_checks'] = counters.get('range_checks', 0) + len(rs)
        c = committed0.get(p, kafka_fake.OFFSET_INVALID)
        lo0 = rs[0][0]
        if c != kafka_fake.OFFSET_INVALID:
            if lo0 != c:
                add('C09:first-range-not-at-committed-offset', 'partition %d: committed offset %d, first range starts at %d' % (p, c, lo0))
        elif p in added or p >= h['nparts']:
            pass
        elif h['reset'] == 'earliest' and lo0 != 0:
            add('C09:first-range-not-at-reset-position', 'partition %d: nothing committed, reset=earliest, first range starts at %d' % (p, lo0))
        elif h['reset'] == 'latest' and lo0 < inc['size_at_start'][p]:
            add('C09:first-range-not-at-reset-position', 'partition %d: nothing committed, reset=latest with %d messages present at start, '
                'first range starts at %d' % (p, inc['size_at_start'][p], lo0))
        group_start.setdefault(p, lo0)
        prev_high = None
        for low, high, e in rs:
            if prev_high is not None and low != prev_high + 1:
                add('C09:ranges-not-contiguous', 'partition %d: range ending at %d is followed by a range starting at %d' % (p, prev_high, low))
            if high < low:
                add('C09:empty-range', 'partition %d: range (%d, %d)' % (p, low, high))
            if high - low + 1 > h['max_batch']:
                add('C09:range-longer-than-max_batch_size', 'partition %d: range (%d, %d) with max_batch_size=%d' % (p, low, high, h['max_batch']))
            prev_high = high
    # batches handed on: exactly the broker's messages low..high, and below the watermark at that moment
    produced = {}
    for e in log.ev:
        if e[2] == 'KAFKA' and e[4] in ('produce', 'hole'):
            produced[(e[5], e[6])] = e[0]
    for p, rs in per.items():
        for low, high, e in rs:
            for o in (high,):
                when = produced.get((p, o))
                if when is not None and when > e[0]:
                    add('C09:range-beyond-high-watermark', 'partition %d: range (%d, %d) emitted before message %d existed' % (p, low, high, o))
    pairs, pending = [], None
    for e in log.ev:
        if e[3] != 'fetch':
            continue
        if e[2] == 'IN':
            pending = e
        elif e[2] == 'RAISED':
            pending = None              # the fetch failed: nothing handed on
        elif e[2] == 'OUT' and pending is not None:
            pairs.append((pending, e))
            pending = None
    for i_e, o_e in pairs:
        _, topic, p, keys, low, high = i_e[5]
        exp = [broker.logs[p][o][1] for o in range(low, high + 1) if not is_hole(broker, p, o)]
        if not all(exp):
            counters['ranges_with_empty_valued_messages'] = counters.get('ranges_with_empty_valued_messages', 0) + 1
        if len(exp) < high - low + 1:
            counters['ranges_with_message_less_offsets'] = counters.get('ranges_with_message_less_offsets', 0) + 1
            if is_hole(broker, p, high):
                counters['ranges_ending_at_message_less_offset'] = counters.get('ranges_ending_at_message_less_offset', 0) + 1
        got = [(m['value'] if isinstance(m, dict) else m) for m in o_e[4]]
        counters['batch_content_checks'] = counters.get('batch_content_checks', 0) + 1
        if got != exp:
            add('C09:batch-content', 'partition %d range (%d, %d): handed on %s' % (p, low, high, got[:12]))
        if keys and not all(isinstance(m, dict) and 'key' in m for m in o_e[4]):
            add('C09:keys-missing', 'keys=True but batch is %r' % (o_e[4][:3],))
    return per


def parse(v):
    p, o = v.split(b'-')
    return int(p[1:]), int(o[1:])


def check_history(h, crash_at, counters, sets):
    viols, seen = [], set()
    case = {'history': h, 'crash_at': crash_at}

    def add(key, what):
        if key not in seen:
            seen.add(key)
            viols.append({'key': key, 'what': what, 'case': case})
    broker = kafka_fake.Broker(TOPIC, h['nparts'])
    if h.get('empty'):
        broker.empty_rule = tuple(h['empty'])
    for p, n in enumerate(h['pre']):
        for j in range(n):
            broker.produce(p, key=(b'k' if h['keys'] else None), hole_before=bool(h.get('pre_holes') and h['pre_holes'][p][j]))
    incs = []
    group_start = {}
    completed = set()          # (partition, offset) completely processed, in global order across incarnations
    handed = set()             # end+1 of every range handed out, per partition
    all_ranges = {}
    n_commits = n_batches = 0
    for k, crash in enumerate([crash_at, None] if crash_at is not None else [None]):
        size_at_start = [len(x) for x in broker.logs]
        committed_at_start = {p: broker.committed.get(('g', p), kafka_fake.OFFSET_INVALID) for p in range(len(broker.logs))}
        broker.committed_failures = h.get('committed_failures', 0)     # per incarnation: also on the restart
        broker.committed_fail_at = set(h.get('committed_fail_at', ()))
        broker.n_committed = 0
        broker.fetch_failures = set(h.get('fetch_failures', ()))
        broker.n_assign = 0
        broker.error_polls = set(h.get('error_polls', ()))
        broker.n_fetch_polls = 0
        broker.wm_fail_at = set(h.get('wm_fail_at', ()))
        broker.n_wm = 0
        inc = run_incarnation(broker, h, crash, preload=(k == 1))
        inc['size_at_start'] = size_at_start
        inc['committed_at_start'] = committed_at_start
        incs.append(inc)
        if inc['reason'] == 'iter-cap':
            return None, None
        if h.get('stopstart') and any(e[2] == 'KAFKA' and e[4] == 'stop_then_start' for e in inc['log'].ev):
            counters['runs_with_stop_and_start_during_a_poll_round'] = counters.get('runs_with_stop_and_start_during_a_poll_round', 0) + 1
            if inc['poll_loops'] > 1:
                # the loop did end and a new one re-read the committed offsets: a restart inside the process, which this
                # oracle (one start position per incarnation) does not describe; one loop at a time is C18's business
                counters['runs_set_aside_because_a_second_polling_loop_began'] = counters.get('runs_set_aside_because_a_second_polling_loop_began', 0) + 1

                class SetAside:
                    interesting = False
                    n_events = len(inc['log'].ev)
                    summary = {'restarted': False}
                return SetAside, []
        for e in inc['log'].ev:
            if e[2] == 'KAFKA' and e[4] == 'fetch_blocked_for_ever':
                add('C09:fetch-of-a-batch-never-returns', 'partition %d: the fetch went on polling at offset %d, beyond the last message of '
                    'its range, for ever (it blocks the event loop): %s' % (e[5], e[6], 'the last message of the range has an empty value'
                                                                          if h.get('empty') else '?'))
        for name, msg, exc in inc['errors']:
            if isinstance(exc, kafka_fake.FetchBlockedForEver):
                continue
            if h.get('fetch_failures') and isinstance(exc, kafka_fake.KafkaException):
                counters['injected_fetch_failures_seen'] = counters.get('injected_fetch_failures_seen', 0) + 1
                continue
            add('C09:loop-exception:%s' % (type(exc).__name__ if exc is not None else 'log'), '%s %s %r' % (name, msg[:200], exc))
        per = check_ranges(h, inc, broker, add, counters, group_start)
        for p, rs in per.items():
            n_batches += len(rs)
            all_ranges.setdefault(p, []).extend(rs)
            for low, high, e in rs:
                handed.add((p, high + 1))
        for e in inc['log'].ev:
            if e[2] == 'END':
                for v in e[4]:
                    completed.add(parse(v))
            elif e[2] == 'KAFKA' and e[4] == 'auto_commit_enabled':
                add('C09:auto-commit-not-disabled', 'a consumer was created with enable.auto.commit != false')
            elif e[2] == 'KAFKA' and e[4] == 'commit':
                _, _, _, _, _, g, p, o = e[:8]
                n_commits += 1
                counters['commit_points_checked'] = counters.get('commit_points_checked', 0) + 1
                if (p, o) not in handed:
                    add('C09:commit-of-offset-never-handed-out', 'partition %d: commit(%d) but no range ends at %d' % (p, o, o - 1))
                start = group_start.get(p, 0)
                if h.get('fetch_failures'):
                    # only the literal rule: the batch ending just before o has been completely processed
                    start = max([lo for (lo, hi, _) in all_ranges.get(p, []) if hi == o - 1] or [o - 1])
                missing = [x for x in range(start, o) if (p, x) not in completed and not is_hole(broker, p, x)]
                if missing:
                    add('C09:commit-before-processing-completed', 'incarnation %d, t=%s: commit(partition %d, offset %d) while '
                        'messages %s of that partition have not been completely processed' % (k, e[1], p, o, missing[:8]))
        if crash is not None and not inc['crashed']:
            break           # the history ended before the crash point: nothing to restart
    restarted = crash_at is not None and incs[0]['crashed'] and len(incs) == 2
    if restarted and not h.get('fetch_failures'):
        counters['restart_runs'] = counters.get('restart_runs', 0) + 1
        if h['reset'] == 'earliest' or True:
            delivered2 = set()
            for e in incs[1]['log'].ev:
                if e[2] == 'START':
                    for v in e[4]:
                        delivered2.add(parse(v))
            completed1 = set()
            for e in incs[0]['log'].ev:
                if e[2] == 'END':
                    for v in e[4]:
                        completed1.add(parse(v))
            for p in range(len(broker.logs)):
                start = group_start.get(p)
                if start is None:
                    if h['reset'] != 'earliest':
                        continue
                    start = 0
                if h['reset'] != 'earliest' and ('g', p) not in broker.committed and p not in incs[1].get('per', {}):
                    pass
                for o in range(start, len(broker.logs[p])):
                    counters['messages_accounted_after_restart'] = counters.get('messages_accounted_after_restart', 0) + 1
                    if is_hole(broker, p, o):
                        continue
                    if (p, o) not in completed1 and (p, o) not in delivered2:
                        if h['reset'] != 'earliest' and incs[0]['committed_at_start'].get(p, -1001) == -1001 and \
                                incs[1]['committed_at_start'].get(p, -1001) == -1001:
                            continue        # reset=latest and never committed: the restart legitimately jumps to the end
                        add('C09:message-lost-across-restart', 'partition %d offset %d was not completely processed before the crash '
                            '(event %d) and was not delivered again after the restart (committed at restart: %s)'
                            % (p, o, crash_at, incs[1]['committed_at_start'].get(p)))
                        break
    sets.setdefault('configs', set()).add('parts=%d batch=%d reset=%s sink=%s' % (h['nparts'], h['max_batch'], h['reset'], h['sink']['kind']))
    counters['events_observed'] = counters.get('events_observed', 0) + sum(len(i['log'].ev) for i in incs)

    class Res:
        pass
    r = Res()
    r.interesting = n_batches >= 2 and n_commits >= 1
    r.n_events = len(incs[0]['log'].ev)
    r.summary = {'batches': n_batches, 'commits': n_commits, 'restarted': restarted,
                 'journal_excerpt': [list(map(str, j)) for j in broker.journal if j[0] in ('commit', 'add_partition')][:12]}
    return r, viols


def run_shard(seed, tier, shard, nshards):
    rng = random.Random('%s-%d-%d-%s' % (PID, seed, shard, tier))
    out = {'evaluations': 0, 'keys': [], 'violations': [], 'samples': [], 'counters': {},
           'sets': {}, 'inconclusive': []}
    for k in range(n_histories(tier)):
        h = gen_history(rng, tier)
        r, viols = check_history(h, None, out['counters'], out['sets'])
        out['evaluations'] += 1
        if viols is None:
            out['inconclusive'].append('history %d: iteration cap' % k)
            continue
        out['violations'].extend(viols)
        if r.interesting:
            out['keys'].append(progs.prog_key(h, None))
        n_ev = r.n_events
        if tier == 'thorough' and n_ev <= 260:
            points = list(range(2, n_ev))
            out['counters']['histories_with_every_crash_point'] = out['counters'].get('histories_with_every_crash_point', 0) + 1
        else:
            points = sorted(set(rng.randrange(2, max(3, n_ev)) for _ in range(4 if tier == 'quick' else 12)))
        for c in points:
            r2, v2 = check_history(h, c, out['counters'], out['sets'])
            out['evaluations'] += 1
            if v2 is None:
                out['inconclusive'].append('history %d crash %d: iteration cap' % (k, c))
                continue
            out['violations'].extend(v2)
            if r2.interesting:
                out['keys'].append(progs.prog_key(h, c))
            if len(out['samples']) < 2 and r2.interesting and r2.summary['restarted']:
                out['samples'].append({'history': h, 'crash_after_event': c, 'observed': r2.summary})
    return out


def replay(case):
    _, viols = check_history(case['history'], case['crash_at'], {}, {})
    return viols or []
