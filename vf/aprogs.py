"""Seeded generator of asynchronous programs, producers and schedules."""
from . import progs

SVC_GRID = [0, 0, 0.25, 0.5, 1.0, 1.5, 2.0]
INT_GRID = [0.5, 1.0, 2.0]
GAP_GRID = [0, 0, -1, -2, 0.25, 0.5, 1.0, 1.0, 3.0]      # negative: that many loop turns at the same virtual instant

SYNC_POOL = ['map', 'map', 'filter', 'accumulate', 'unique', 'sliding_window', 'partition', 'partition_unique',
             'pluck', 'starmap', 'flatten', 'union', 'zip', 'combine_latest', 'zip_latest', 'slice']
LOSSLESS_ASYNC = ['buffer', 'delay', 'rate_limit', 'map_async', 'timed_window', 'partition_timeout']


class AGen(progs.Gen):
    def __init__(self, rng, async_ops=None, sync_ops=None, max_nodes=8, sink_kinds=('sync', 'coro', 'future', 'tornado', 'awaitable'),
                 zip_maxsize=1000, fail_prob=0.0, p_async=0.5):
        super().__init__(rng, ops=sync_ops or SYNC_POOL, max_nodes=max_nodes, allow_feedback=False,
                         allow_collect=False, zip_maxsize=zip_maxsize)
        self.async_ops = async_ops if async_ops is not None else LOSSLESS_ASYNC
        self.sink_kinds = sink_kinds
        self.fail_prob = fail_prob
        self.p_async = p_async
        self.batchy = set()          # nodes that may emit empty batches periodically

    def _pick_up(self, pred=None):
        r = self.r
        if pred is None:
            pred = lambda k: k not in ('dict', 'opaque')
        cands = [n['id'] for n in self.nodes if n['op'] not in ('sink', 'sink_flush')
                 and n['id'] not in self.batchy
                 and pred(self.kind[n['id']])]
        if not cands:
            return None
        if r.random() < 0.7:
            return cands[-1 - min(len(cands) - 1, int(r.expovariate(1.5)))]
        return r.choice(cands)

    def _multi_cands(self):
        return [n['id'] for n in self.nodes if n['op'] not in ('sink', 'sink_flush')
                and n['id'] not in self.batchy and self.kind[n['id']] not in ('dict', 'opaque')]

    def _svc(self):
        r = self.r
        style = r.choice(['zero', 'const', 'mixed', 'mixed', 'decreasing'])
        if style == 'zero':
            return [0]
        if style == 'const':
            return [r.choice(SVC_GRID[2:])]
        if style == 'decreasing':
            return [2.0, 1.0, 0.5, 0.25, 0]
        return [r.choice(SVC_GRID) for _ in range(r.randrange(2, 5))]

    def _add_async(self, op):
        r = self.r
        K = self.kind
        if op == 'partition_timeout':
            u = self._pick_up()
            n = r.choice([1, 2, 3, 4])
            p = self._new('partition', [u], ('tup', 1), n=n, timeout=r.choice(INT_GRID + [0, 0.5]),
                          key=self._key_param(K[u]) if r.random() < 0.4 else None)
            return p
        if op in ('timed_window', 'timed_window_unique'):
            u = self._pick_up()
            params = {'interval': r.choice(INT_GRID), 'ival_str': r.random() < 0.25}
            if op == 'timed_window_unique':
                params['key'] = r.choice(['ident', 'mod2', 'mod3', 'fsum'])
                params['keep'] = r.choice(['first', 'last'])
            w = self._new(op, [u], ('tup', 0), **params)
            self.batchy.add(w)
            if r.random() < 0.8:
                f = self._new('flatten', [w], 'any')
                return f
            return w
        u = self._pick_up()
        if op == 'buffer':
            return self._new('buffer', [u], K[u], n=r.choice([1, 1, 2, 3, 5]))
        if op == 'delay':
            return self._new('delay', [u], K[u], interval=r.choice([0.25] + INT_GRID), ival_str=r.random() < 0.25)
        if op == 'rate_limit':
            return self._new('rate_limit', [u], K[u], interval=r.choice([0.25] + INT_GRID), ival_str=r.random() < 0.25)
        if op == 'latest':
            return self._new('latest', [u], K[u])
        if op == 'map_async':
            f = r.choice(['inc', 'dbl', 'ident', 'fsum', 'wrap'])
            mk = progs.F.MAP_KIND[f]
            kind = K[u] if mk == 'same' else (('tup', mk[1] or 0) if isinstance(mk, tuple) else mk)
            params = {'f': f, 'parallelism': r.choice([1, 1, 2, 3]), 'svc': self._svc(),
                      'ret': r.choice(['coro', 'coro', 'future'])}
            if self.fail_prob and r.random() < self.fail_prob:
                params['fail'] = sorted(r.sample(range(8), r.choice([1, 2])))
            return self._new('map_async', [u], kind, **params)
        raise ValueError(op)

    def program(self, n_entries=None, min_async=1):
        r = self.r
        self.nodes, self.kind, self.anc, self.extra = [], {}, {}, []
        self.batchy = set()
        n_entries = n_entries or r.choice([1, 1, 1, 2])
        self.entry_kinds = {}
        for _ in range(n_entries):
            e = self._new('source', [], 'int')
            self.entry_kinds[e] = 'int'
        target = r.randrange(2, self.max_nodes + 1)
        n_async = 0
        tries = 0
        while (len(self.nodes) < n_entries + target or n_async < min_async) and tries < 60:
            tries += 1
            if self.async_ops and (r.random() < self.p_async or (n_async < min_async and tries > 3)):
                if self._add_async(r.choice(self.async_ops)) is not None:
                    n_async += 1
            else:
                self._add(r.choice(self.ops))
        has_child = set()
        for n in self.nodes:
            has_child.update(n['ups'])
        for n in list(self.nodes):
            if n['op'] == 'sink':
                continue
            if n['id'] not in has_child or r.random() < 0.1:
                spec = {'kind': r.choice(self.sink_kinds), 'svc': self._svc()}
                if self.fail_prob and r.random() < self.fail_prob:
                    spec['fail'] = sorted(r.sample(range(8), r.choice([1, 2])))
                self._new('sink', [n['id']], None, **spec)
        return {'nodes': self.nodes, 'extra_edges': []}

    def producers(self, prog, max_total=24, n_md=(1,), per_entry=False):
        r = self.r
        entries = [n['id'] for n in prog['nodes'] if n['op'] == 'source']
        alpha = r.choice([[0, 1, 2], [0, 1, 2, 3, 4, 5], [1, 2, 3, 5, 8, 13]])
        if per_entry:
            np_ = len(entries)
        else:
            np_ = r.choice([1, 1, 2, 3])
        total = r.randrange(2, max_total + 1)
        out = []
        for p in range(np_):
            k = max(1, total // np_)
            style = r.choice(['burst', 'steady', 'mixed', 'mixed'])
            steady = r.choice(GAP_GRID[2:])
            items = []
            for _ in range(k):
                if style == 'burst':
                    gap = 0 if r.random() < 0.85 else r.choice(GAP_GRID)
                elif style == 'steady':
                    gap = steady
                else:
                    gap = r.choice(GAP_GRID)
                e = entries[p % len(entries)] if per_entry else r.choice(entries)
                items.append([gap, e, r.choice(alpha), r.choice(n_md)])
            out.append(items)
        return out


def svc_profile(r):
    style = r.choice(['zero', 'const', 'mixed', 'mixed', 'decreasing'])
    if style == 'zero':
        return [0]
    if style == 'const':
        return [r.choice(SVC_GRID[2:])]
    if style == 'decreasing':
        return [2.0, 1.0, 0.5, 0.25, 0]
    return [r.choice(SVC_GRID) for _ in range(r.randrange(2, 5))]


class XAGen(progs.XGen):
    """Asynchronous programs over "exotic" elements (None, falsy values, strings, nested tuples): the exotic-safe
    synchronous nodes of progs.XGen plus the time-based / buffering nodes, whose functions (keys) are total on every value."""
    ASYNC = ['buffer', 'delay', 'rate_limit', 'latest', 'timed_window', 'timed_window_unique', 'timed_window_unique',
             'partition_timeout']

    def __init__(self, rng, async_ops=None, max_nodes=6, sink_kinds=('sync', 'coro', 'future', 'tornado', 'awaitable')):
        super().__init__(rng, max_nodes=max_nodes)
        self.async_ops = async_ops or self.ASYNC
        self.async_ops = [o for o in self.async_ops if o in self.ASYNC] or self.ASYNC
        self.sink_kinds = sink_kinds
        self.batchy = set()

    def _pick(self, kind=None):
        c = [n['id'] for n in self.nodes if n['op'] != 'sink' and n['id'] not in self.batchy
             and (kind is None or self.kind[n['id']] == kind)]
        if not c:
            return None
        r = self.r
        return c[-1 - min(len(c) - 1, int(r.expovariate(1.5)))] if r.random() < 0.7 else r.choice(c)

    def _multi_cands(self):
        return [n['id'] for n in self.nodes if n['op'] != 'sink' and n['id'] not in self.batchy]

    def _add_async(self, op):
        r, K = self.r, self.kind
        u = self._pick()
        if op == 'buffer':
            return self._new('buffer', [u], K[u], n=r.choice([1, 1, 2, 3, 5]))
        if op in ('delay', 'rate_limit'):
            return self._new(op, [u], K[u], interval=r.choice([0.25] + INT_GRID), ival_str=r.random() < 0.25)
        if op == 'latest':
            return self._new('latest', [u], K[u])
        if op == 'partition_timeout':
            return self._new('partition', [u], 'xt', n=r.choice([1, 2, 3, 4]), timeout=r.choice(INT_GRID),
                             key=r.choice([None, None, 'x_type', 'x_isnone']))
        params = {'interval': r.choice(INT_GRID), 'ival_str': r.random() < 0.25}
        if op == 'timed_window_unique':
            params['key'] = r.choice(['ident', 'x_type', 'x_repr', 'x_isnone'])
            params['keep'] = r.choice(['first', 'last', 'last'])
        w = self._new(op, [u], 'xt', **params)
        self.batchy.add(w)
        if r.random() < 0.8:
            return self._new('flatten', [w], 'x')
        return w

    def program(self, n_entries=None, min_async=1):
        r = self.r
        self.nodes, self.kind, self.batchy = [], {}, set()
        n_entries = n_entries or r.choice([1, 1, 1, 2])
        for _ in range(n_entries):
            self._new('source', [], 'x')
        target = r.randrange(1, self.max_nodes + 1)
        n_async = tries = 0
        while (len(self.nodes) < n_entries + target or n_async < min_async) and tries < 60:
            tries += 1
            if r.random() < 0.5 or (n_async < min_async and tries > 3):
                if self._add_async(r.choice(self.async_ops)) is not None:
                    n_async += 1
            else:
                self._add(r.choice(self.OPS))
        has_child = set(u for n in self.nodes for u in n['ups'])
        for n in list(self.nodes):
            if n['op'] != 'sink' and (n['id'] not in has_child or r.random() < 0.1):
                self._new('sink', [n['id']], None, kind=r.choice(self.sink_kinds), svc=svc_profile(r))
        return {'nodes': self.nodes, 'extra_edges': []}

    def producers(self, prog, max_total=16):
        r = self.r
        entries = [n['id'] for n in prog['nodes'] if n['op'] == 'source']
        pool = r.choice([progs.EXOTIC, progs.EXOTIC, [None, 0, 1], [None, None, 'a', 0]])
        np_ = r.choice([1, 1, 2, 3])
        total = r.randrange(2, max_total + 1)
        out = []
        for p in range(np_):
            style = r.choice(['burst', 'steady', 'mixed', 'mixed'])
            steady = r.choice(GAP_GRID[2:])
            items = []
            for _ in range(max(1, total // np_)):
                gap = (0 if r.random() < 0.85 else r.choice(GAP_GRID)) if style == 'burst' else steady if style == 'steady' else r.choice(GAP_GRID)
                items.append([gap, r.choice(entries), r.choice(pool), 1])
            out.append(items)
        return out
