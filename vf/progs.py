"""E5 -- seeded generator of synchronous pipeline programs, and the builder
that turns a program spec into real streamz nodes.

A program is JSON: {'nodes': [spec...], 'extra_edges': [[u, v]...]} where each
spec has 'id', 'op', 'ups' and the op's parameters (function *names* from
vf/funcs.py).  Value kinds are tracked only as far as needed to keep programs
well typed: 'int', 'any', or ('tup', minlen).
"""
import hashlib
import json

from . import funcs as F

SYNC_OPS = ['map', 'starmap', 'filter', 'accumulate', 'slice', 'partition', 'partition_unique',
            'sliding_window', 'unique', 'flatten', 'pluck', 'collect', 'union', 'zip',
            'combine_latest', 'zip_latest']


def prog_key(prog, extra=None):
    s = json.dumps([prog, extra], sort_keys=True, default=str)
    return hashlib.sha1(s.encode()).hexdigest()[:16]


def struct_key(prog):
    """hash of structure + parameters (ids are positional, so included)"""
    return prog_key(prog)


def _is_tup(k):
    return isinstance(k, (tuple, list)) and k[0] == 'tup'


def _minlen(k):
    return k[1] if _is_tup(k) else 0


class Gen:
    def __init__(self, rng, ops=None, max_nodes=10, allow_feedback=True, allow_collect=True,
                 partition_ok=True, zip_maxsize=1000):
        self.r = rng
        self.ops = ops or SYNC_OPS
        self.max_nodes = max_nodes
        self.allow_feedback = allow_feedback
        self.allow_collect = allow_collect
        self.partition_ok = partition_ok
        self.zip_maxsize = zip_maxsize

    # -- helpers --------------------------------------------------------
    def _new(self, op, ups, vkind, **params):
        nid = 'n%d' % len(self.nodes)
        spec = {'id': nid, 'op': op, 'ups': list(ups)}
        spec.update(params)
        self.nodes.append(spec)
        self.kind[nid] = vkind
        self.anc[nid] = set(ups).union(*[self.anc[u] for u in ups]) if ups else set()
        return nid

    def _pick_up(self, pred=None):
        r = self.r
        if pred is None:
            pred = lambda k: k not in ('dict', 'opaque')       # dict-valued elements only where an op asks for them
        cands = [n['id'] for n in self.nodes if n['op'] not in ('sink', 'sink_flush')
                 and pred(self.kind[n['id']])]
        if not cands:
            return None
        # bias towards recent nodes (chains) but allow fan-out anywhere
        if r.random() < 0.6:
            return cands[-1 - min(len(cands) - 1, int(r.expovariate(1.2)))]
        return r.choice(cands)

    def _multi_cands(self):
        return [n['id'] for n in self.nodes if n['op'] not in ('sink', 'sink_flush')
                and self.kind[n['id']] not in ('dict', 'opaque')]

    def _key_param(self, kind, allow_none=True):
        r = self.r
        opts = ['fsum', 'mod2', 'mod3', 'ident', 'size']
        if kind == 'dict':
            return {'index': 'a'} if r.random() < 0.6 else r.choice(['fsum', 'mod2'])
        if _is_tup(kind) and _minlen(kind) >= 1 and r.random() < 0.3:
            return {'index': r.randrange(_minlen(kind))}
        if allow_none and r.random() < 0.35:
            return None
        return r.choice(opts)

    # -- one node -------------------------------------------------------
    def _add(self, op):
        r = self.r
        K = self.kind
        if op == 'map':
            u = self._pick_up(lambda k: k != 'dict')
            f = r.choice(F.STD_MAPS)
            mk = F.MAP_KIND[f]
            kind = K[u] if mk == 'same' else (('tup', mk[1] or 0) if isinstance(mk, tuple) else mk)
            if K[u] == 'opaque' and kind != 'int':
                kind = 'opaque'         # a tuple built around an element that contains dicts is as unhashable as the element
            if f == 'addk':
                return self._new('map', [u], kind, f=f, args=[r.randrange(3)], kwargs={'m': r.choice([1, 2])})
            return self._new('map', [u], kind, f=f)
        if op == 'starmap':
            u = self._pick_up(_is_tup)
            if u is None:
                return None
            f = r.choice(list(F.STARS))
            args = [r.randrange(3) for _ in range(r.choice([0, 0, 1, 2]))]
            kind = 'int' if f == 'sm' else ('any' if f == 'first' else ('tup', _minlen(K[u]) + len(args)))
            return self._new('starmap', [u], kind, f=f, args=args)
        if op == 'filter':
            u = self._pick_up(lambda k: k != 'opaque')
            pr = r.choice(F.STD_PREDS)
            if pr == 'gtk':
                return self._new('filter', [u], K[u], p=pr, args=[r.randrange(3)], kwargs={'strict': r.random() < 0.5})
            if pr != 'none' and r.random() < 0.2:
                return self._new('filter', [u], K[u], p=pr, negate=True)
            return self._new('filter', [u], K[u], p=pr)
        if op == 'accumulate':
            u = self._pick_up()
            f = r.choice(F.STD_ACCS)
            params = {'f': f}
            has_start = r.random() < 0.5 or F.ACCS[f][1]
            if has_start:
                params['start'] = r.choice([0, 1, 5]) if f != 'cat' else (0,)
            ws = r.random() < 0.3
            if ws:
                params['with_state'] = True
            if ws:
                kind = ('tup', 2)
            elif f == 'add_rs':
                kind = ('tup', 2)
            elif f == 'cat':
                kind = 'any' if not has_start else ('tup', 1)
            elif has_start:
                kind = 'int'
            else:
                kind = 'any'       # first element passes through unchanged
            return self._new('accumulate', [u], kind, **params)
        if op == 'slice':
            u = self._pick_up(lambda k: k != 'opaque')
            start = r.choice([None, 0, 1, 2, 3])
            end = r.choice([None, None, 0, 1, 2, 4, 7, 12])
            step = r.choice([None, 1, 2, 3])
            return self._new('slice', [u], K[u], start=start, end=end, step=step)
        if op == 'partition':
            if not self.partition_ok:
                return None
            u = self._pick_up(lambda k: k != 'opaque')
            n = r.choice([1, 1, 2, 2, 3, 4])
            return self._new('partition', [u], 'opaque' if K[u] == 'dict' else ('tup', n), n=n, key=self._key_param(K[u]))
        if op == 'partition_unique':
            u = self._pick_up(lambda k: k != 'opaque')
            n = r.choice([1, 2, 2, 3])
            key = self._key_param(K[u], allow_none=False) if (r.random() < 0.7 or K[u] == 'dict') else 'ident'
            return self._new('partition_unique', [u], 'opaque' if K[u] == 'dict' else ('tup', n), n=n, key=key,
                             keep=r.choice(['first', 'last']))
        if op == 'sliding_window':
            u = self._pick_up()
            n = r.choice([1, 2, 2, 3, 4])
            partial = r.random() < 0.5
            return self._new('sliding_window', [u], ('tup', 1 if partial else n), n=n,
                             partial=partial)
        if op == 'unique':
            u = self._pick_up(lambda k: k != 'opaque')
            if K[u] == 'dict':
                # dicts are unhashable: either a key function, or the list-based history
                if r.random() < 0.5:
                    return self._new('unique', [u], K[u], maxsize=r.choice([None, 1, 2, 3]), key='ident', hashable=False)
                return self._new('unique', [u], K[u], maxsize=r.choice([None, None, 1, 2, 3]),
                                 key=r.choice(['fsum', 'mod3', 'mod2']), hashable=r.random() < 0.7)
            return self._new('unique', [u], K[u], maxsize=r.choice([None, None, 1, 2, 3]),
                             key=r.choice(['ident', 'ident', 'fsum', 'mod3', 'mod2']),
                             hashable=r.random() < 0.7)
        if op == 'flatten':
            u = self._pick_up(_is_tup)
            if u is None:
                return None
            return self._new('flatten', [u], 'any')
        if op == 'pluck':
            if r.random() < 0.12:
                # a pick that is a tuple is ONE key (only a list picks several): elements keyed by tuples
                u = self._pick_up(lambda k: k != 'dict')
                m = self._new('map', [u], 'opaque', f='astupdict')
                return self._new('pluck', [m], 'int', pick_tuple=['r', r.choice(['c', 'd'])])
            d = self._pick_up(lambda k: k == 'dict')
            if d is not None and r.random() < 0.6:
                if r.random() < 0.5:
                    return self._new('pluck', [d], 'int', pick='a')
                return self._new('pluck', [d], ('tup', 2), pick=['a', 'b'])
            u = self._pick_up(lambda k: _is_tup(k) and _minlen(k) >= 1)
            if u is None:
                return None
            m = _minlen(K[u])
            if r.random() < 0.4:
                pick = [r.randrange(m) for _ in range(r.choice([1, 2, 3]))]
                kind = ('tup', len(pick))
            else:
                pick = r.randrange(m)
                kind = 'any'
            return self._new('pluck', [u], kind, pick=pick)
        if op == 'collect':
            if not self.allow_collect or len(self.nodes) < 2:
                return None
            u = self._pick_up()
            c = self._new('collect', [u], ('tup', 0))
            # trigger: a flushing sink on a node that is not a descendant of c
            cands = [n['id'] for n in self.nodes if n['op'] not in ('sink', 'sink_flush')
                     and n['id'] != c and c not in self.anc[n['id']]]
            t = r.choice(cands)
            self._new('sink_flush', [t], None, target=c)
            return c
        if op in ('union', 'zip', 'combine_latest', 'zip_latest'):
            cands = self._multi_cands()
            k = r.choice([1, 2, 2, 2, 3]) if op in ('union', 'zip') else r.choice([2, 2, 3])
            k = min(k, len(cands))
            if k < 1 or (op in ('combine_latest', 'zip_latest') and k < 2):
                return None
            ups = r.sample(cands, k)
            if op == 'union':
                kinds = {json.dumps(K[u]) for u in ups}
                return self._new('union', ups, K[ups[0]] if len(kinds) == 1 else 'any')
            if op == 'zip':
                lits = []
                if r.random() < 0.35:
                    npos = k + 1
                    lits = [[r.randrange(npos), r.choice([7, 9])]]
                    if r.random() < 0.3:
                        lits.append([r.randrange(npos + 1), 8])
                    # positions must be distinct and increasing to be meaningful
                    lits = sorted({p: v for p, v in lits}.items())
                    lits = [[p, v] for p, v in lits]
                return self._new('zip', ups, ('tup', k + len(lits)), literals=lits)
            if op == 'combine_latest':
                eo = None
                form = None
                if r.random() < 0.5:
                    eo = sorted(r.sample(range(k), r.randrange(1, k + 1)))
                    form = r.choice(['index', 'stream', 'single'])
                    if form == 'single':
                        eo = eo[:1]
                return self._new('combine_latest', ups, ('tup', k), emit_on=eo, emit_on_form=form)
            return self._new('zip_latest', ups, ('tup', k))
        raise ValueError(op)

    def _feedback_general(self):
        """v -> map(half) -> filter(pos) -> filter(small) -> unique -> (back into an ancestor of v, or v itself).
        The unbounded unique over {1,2,3} bounds the total number of re-entries of the whole run by three."""
        r = self.r
        cands = [n['id'] for n in self.nodes if n['op'] not in ('source', 'sink', 'sink_flush', 'collect')]
        if not cands:
            return None
        specs = {n['id']: n for n in self.nodes}
        holders = [c for c in cands if specs[c]['op'] in ('zip', 'combine_latest', 'zip_latest', 'partition',
                                                          'partition_unique', 'sliding_window', 'accumulate')]
        v = r.choice(holders) if holders and r.random() < 0.7 else r.choice(cands)
        targets = []
        for x in sorted(self.anc[v] | {v}):
            sx = specs[x]
            if sx['op'] in ('zip', 'combine_latest') and sx['ups']:
                targets.append(x)          # a late-connected extra input of a combining node
                continue
            if sx['op'] in ('map', 'filter', 'unique', 'union', 'accumulate', 'sliding_window', 'partition',
                            'partition_unique') and sx['ups'] and self.kind[sx['ups'][0]] in ('int', 'any'):
                if sx['op'] == 'map' and sx.get('f') in ('rep',):
                    continue
                targets.append(x)
        if not targets:
            return None
        comb = [t for t in targets if specs[t]['op'] in ('zip', 'combine_latest')]
        x = r.choice(comb) if comb and r.random() < 0.5 else r.choice(targets)
        m = self._new('map', [v], 'int', f='half')
        f1 = self._new('filter', [m], 'int', p='pos')
        f2 = self._new('filter', [f1], 'int', p='small')
        g = self._new('unique', [f2], 'int', maxsize=None, key='ident', hashable=True)
        self.extra.append([g, x])
        return g

    def _feedback_collect(self):
        """u -> collect, flushed by a dedicated trigger entry; what the flush delivers is flattened, halved, guarded and
        fed back into u: an element that arrives at the collector WHILE it is delivering a collection"""
        r = self.r
        cands = [n['id'] for n in self.nodes if n['op'] in ('source', 'map') and self.kind[n['id']] == 'int']
        if not cands:
            return None
        u = r.choice(cands)
        c = self._new('collect', [u], ('tup', 0))
        trig = self._new('source', [], 'int')
        self.entry_kinds[trig] = 'int'
        self._new('sink_flush', [trig], None, target=c)
        f = self._new('flatten', [c], 'any')
        m = self._new('map', [f], 'int', f='half')
        f1 = self._new('filter', [m], 'int', p='pos')
        f2 = self._new('filter', [f1], 'int', p='small')
        g = self._new('unique', [f2], 'int', maxsize=None, key='ident', hashable=True)
        self.extra.append([g, u])
        return c

    def _late_join(self):
        """connect() one more (already existing, earlier created) node to an existing union / zip / combine_latest"""
        r = self.r
        ids = [n['id'] for n in self.nodes]
        joins = [n for n in self.nodes if n['op'] in ('zip', 'combine_latest', 'union')]
        r.shuffle(joins)
        for x in joins:
            before = ids[:ids.index(x['id'])]
            cands = [u for u in before if u not in x['ups'] and self.kind[u] not in ('dict', 'opaque', None)
                     and not any(e == [u, x['id']] for e in self.extra)]
            cands = [u for u in cands if {n['id']: n for n in self.nodes}[u]['op'] not in ('sink', 'sink_flush')]
            if x['op'] == 'union':
                cands = [u for u in cands if self.kind[u] == self.kind[x['id']] and self.kind[u] != 'any']
            if cands:
                self.extra.append([r.choice(cands), x['id']])
                return x['id']
        return None

    def _feedback(self):
        """u -> union -> map(half) -> guard -> (back to the union)"""
        r = self.r
        u = self._pick_up()
        un = self._new('union', [u], self.kind[u] if self.kind[u] == 'int' else 'any')
        m = self._new('map', [un], 'int', f='half')
        if r.random() < 0.5:
            g = self._new('filter', [m], 'int', p='pos')
        else:
            g = self._new('unique', [m], 'int', maxsize=None, key='ident', hashable=True)
        self.extra.append([g, un])
        self.kind[un] = 'any'
        return un

    # -- whole program ----------------------------------------------------
    def program(self):
        r = self.r
        self.nodes, self.kind, self.anc, self.extra = [], {}, {}, []
        n_entries = r.choice([1, 1, 2, 2, 3])
        self.entry_kinds = {}
        for _ in range(n_entries):
            kind = 'int' if r.random() < 0.7 else ('tup', 2)
            e = self._new('source', [], kind)
            self.entry_kinds[e] = kind
        target = r.randrange(3, self.max_nodes + 1)
        did_fb = False
        general_fb = self.allow_feedback and r.random() < 0.2
        saved_collect = self.allow_collect
        if general_fb:
            self.allow_collect = False      # a flush trigger must never end up downstream of its own collector
        tries = 0
        while len(self.nodes) < n_entries + target and tries < 80:
            tries += 1
            if self.allow_feedback and not general_fb and not did_fb and r.random() < 0.04:
                self._feedback()
                did_fb = True
                continue
            self._add(r.choice(self.ops))
        if general_fb:
            self._feedback_general()
        elif self.allow_feedback and r.random() < 0.12:
            self._late_join()
        elif self.allow_feedback and saved_collect and r.random() < 0.05:
            self._feedback_collect()
        self.allow_collect = saved_collect
        # sinks on every leaf and on some inner nodes
        has_child = set()
        for n in self.nodes:
            has_child.update(n['ups'])
        for u, v in self.extra:
            has_child.add(u)
        for n in list(self.nodes):
            if n['op'] in ('sink', 'sink_flush'):
                continue
            if n['id'] not in has_child or r.random() < 0.15:
                self._new('sink', [n['id']], None)
        return {'nodes': self.nodes, 'extra_edges': self.extra}

    def inputs(self, prog, max_len=30):
        """interleaved entry sequence [[entry, value, n_md]]"""
        r = self.r
        entries = [n['id'] for n in prog['nodes'] if n['op'] == 'source']
        n = r.randrange(1, max_len + 1)
        alpha = r.choice([[0, 1, 2], [0, 1, 2, 3, 4, 5], [1, 2, 3, 5, 8, 13, 21, 34], [-2, -1, 0, 1, 2]])
        style = r.choice(['random', 'alternate', 'bursts', 'starve'])
        seq = []
        cur = r.choice(entries)
        for i in range(n):
            if style == 'random':
                e = r.choice(entries)
            elif style == 'alternate':
                e = entries[i % len(entries)]
            elif style == 'bursts':
                if r.random() < 0.25:
                    cur = r.choice(entries)
                e = cur
            else:
                e = entries[0] if r.random() < 0.85 else r.choice(entries)
            kind = self.entry_kinds[e]
            if kind == 'int':
                v = r.choice(alpha)
            else:
                v = (r.choice(alpha), r.choice(alpha))
            seq.append([e, v, r.choice([0, 1, 1, 1, 2])])
        return seq


def entry_kinds_of(prog, inputs):
    return {e: ('tup', 2) if isinstance(v, (tuple, list)) else 'int' for e, v, _ in inputs}


# ---------------------------------------------------------------------------
# building the real pipeline
# ---------------------------------------------------------------------------

def _realkey(k):
    if k is None:
        return None
    if isinstance(k, dict):
        return k['index']
    return F.KEYS[k]


def build_real(prog, log, calls, source_kwargs=None, fn_wrap=None):
    """Instantiate real streamz nodes.  Returns {id: node}.

    fn_wrap(node_id, kind, fn) may wrap user functions (fault injection)."""
    S = {}
    for spec in prog['nodes']:
        n = build_node(spec, S, calls, fn_wrap, source_kwargs)
        if log is not None:
            log.name(n, spec['id'])
        S[spec['id']] = n
    for u, v in prog.get('extra_edges', []):
        S[u].connect(S[v])
    return S


def build_node(spec, S, calls, fn_wrap=None, source_kwargs=None):
    """one real node from its spec; S holds the nodes built so far"""
    import streamz
    from streamz import Stream
    fw = fn_wrap or (lambda nid, kind, fn: fn)
    skw = source_kwargs or {}
    if True:
        op, nid = spec['op'], spec['id']
        ups = [S[u] for u in spec.get('ups', [])]
        if op == 'source':
            n = Stream(**skw)
        elif op == 'map':
            n = ups[0].map(fw(nid, 'map', F.MAPS[spec['f']]), *spec.get('args', ()), **spec.get('kwargs', {}))
        elif op == 'starmap':
            n = ups[0].starmap(fw(nid, 'starmap', F.STARS[spec['f']]), *spec.get('args', ()))
        elif op == 'filter':
            p = F.PREDS[spec['p']]
            if spec.get('negate'):
                n = ups[0].remove(fw(nid, 'filter', p))
            else:
                n = ups[0].filter(fw(nid, 'filter', p) if p is not None else None, *spec.get('args', ()),
                                  **spec.get('kwargs', {}))
        elif op == 'accumulate':
            f, rs = F.ACCS[spec['f']]
            kw = {}
            if 'start' in spec:
                st = spec['start']
                kw['start'] = tuple(st) if isinstance(st, list) else st
            if spec.get('with_state'):
                kw['with_state'] = True
            n = ups[0].accumulate(fw(nid, 'accumulate', f), returns_state=rs, **kw)
        elif op == 'slice':
            n = ups[0].slice(spec.get('start'), spec.get('end'), spec.get('step'))
        elif op == 'partition':
            kw = {}
            if spec.get('key') is not None:
                k = _realkey(spec['key'])
                kw['key'] = fw(nid, 'key', k) if callable(k) else k
            if spec.get('timeout') is not None:
                kw['timeout'] = spec['timeout']
                if spec.get('timeout_np'):
                    import numpy as _np
                    kw['timeout'] = _np.dtype(spec['timeout_np']).type(spec['timeout'])     # a numpy scalar
            n = ups[0].partition(spec['n'], **kw)
        elif op == 'partition_unique':
            k = _realkey(spec.get('key', 'ident'))
            n = ups[0].partition_unique(spec['n'], key=fw(nid, 'key', k) if callable(k) else k,
                                        keep=spec.get('keep', 'first'))
        elif op == 'sliding_window':
            n = ups[0].sliding_window(spec['n'], return_partial=spec.get('partial', True))
        elif op == 'unique':
            n = ups[0].unique(maxsize=spec.get('maxsize'), key=fw(nid, 'key', F.KEYS[spec.get('key', 'ident')]),
                              hashable=spec.get('hashable', True))
        elif op == 'flatten':
            n = ups[0].flatten()
        elif op == 'pluck':
            n = ups[0].pluck(tuple(spec['pick_tuple']) if spec.get('pick_tuple') else spec['pick'])
        elif op == 'collect':
            n = ups[0].collect()
        elif op == 'union':
            n = ups[0].union(*ups[1:])
        elif op == 'zip':
            args = list(ups)
            for i, lit in spec.get('literals', []):
                args.insert(i, lit)
            first = args[0]
            if isinstance(first, Stream):
                n = first.zip(*args[1:], maxsize=spec.get('maxsize', 1000))
            else:
                n = streamz.zip(*args, maxsize=spec.get('maxsize', 1000))
        elif op == 'combine_latest':
            kw = {}
            eo = spec.get('emit_on')
            if eo is not None:
                form = spec.get('emit_on_form')
                if form == 'index':
                    kw['emit_on'] = list(eo)
                elif form == 'single':
                    kw['emit_on'] = ups[eo[0]]
                else:
                    kw['emit_on'] = [ups[i] for i in eo]
            n = ups[0].combine_latest(*ups[1:], **kw)
        elif op == 'zip_latest':
            n = ups[0].zip_latest(*ups[1:])
        elif op == 'sink':
            from .probes import CallSink
            n = ups[0].sink(fw(nid, 'sink', CallSink(nid, calls)))
        elif op == 'sink_flush':
            target = S[spec['target']]

            def flusher(x, nid=nid, target=target):
                calls.append((nid, x))
                return target.flush()           # what `trigger.sink(collector.flush)` hands back to the trigger's emit
            n = ups[0].sink(fw(nid, 'sink', flusher))
        else:
            raise ValueError(op)
    return n


# ---------------------------------------------------------------------------
# "exotic value" programs: the same node catalogue over None, falsy, string and nested-tuple elements
# ---------------------------------------------------------------------------

EXOTIC = [None, None, 0, '', False, 0.0, 1, 'a', [], [None], [0, None], [None, 1, 2], [1, None], ['', 0], [[], None]]


class XGen:
    """Small DAG programs whose user functions are total on every Python value, fed with None / 0 / '' / () / False /
    0.0 / strings / tuples that start with, contain or consist of such values.  Element kinds: 'x' anything (hashable),
    'xt' a tuple of at least one such element."""
    OPS = ['map', 'map', 'filter', 'filter', 'accumulate', 'slice', 'partition', 'partition_unique', 'sliding_window',
           'unique', 'flatten', 'flatten', 'pluck', 'starmap', 'union', 'zip', 'combine_latest', 'zip_latest']

    def __init__(self, rng, max_nodes=7):
        self.r = rng
        self.max_nodes = max_nodes

    def _new(self, op, ups, vkind, **params):
        nid = 'n%d' % len(self.nodes)
        spec = {'id': nid, 'op': op, 'ups': list(ups)}
        spec.update(params)
        self.nodes.append(spec)
        self.kind[nid] = vkind
        return nid

    def _multi_cands(self):
        return [n['id'] for n in self.nodes if n['op'] != 'sink']

    def _pick(self, kind=None):
        c = [n['id'] for n in self.nodes if n['op'] != 'sink' and (kind is None or self.kind[n['id']] == kind)]
        if not c:
            return None
        r = self.r
        return c[-1 - min(len(c) - 1, int(r.expovariate(1.2)))] if r.random() < 0.6 else r.choice(c)

    def _add(self, op):
        r, K = self.r, self.kind
        if op == 'map':
            u = self._pick()
            f = r.choice(['ident', 'wrap', 'x_pair', 'x_nonefirst', 'x_totuple'])
            return self._new('map', [u], K[u] if f == 'ident' else 'xt', f=f)
        if op == 'filter':
            u = self._pick()
            pr = r.choice(['none', 'none', 'x_isnone', 'x_notnone'])
            return self._new('filter', [u], K[u], p=pr, negate=pr != 'none' and r.random() < 0.3)      # remove(None) is not an API use
        if op == 'accumulate':
            u = self._pick()
            f = r.choice(['x_last', 'x_last', 'x_last_rs'])
            params = {'f': f}
            if f == 'x_last_rs' or r.random() < 0.5:
                params['start'] = r.choice([None, 0, '', [], False])        # explicit falsy start values
                if params['start'] == []:
                    params['start'] = ()
            if r.random() < 0.4:
                params['with_state'] = True
            kind = 'xt' if params.get('with_state') or f == 'x_last_rs' else ('x' if K[u] == 'x' else 'x')
            return self._new('accumulate', [u], kind, **params)
        if op == 'slice':
            u = self._pick()
            return self._new('slice', [u], K[u], start=r.choice([None, 0, 1, 2]), end=r.choice([None, None, 1, 3, 6]),
                             step=r.choice([None, 1, 2]))
        if op == 'partition':
            u = self._pick()
            return self._new('partition', [u], 'xt', n=r.choice([1, 2, 2, 3]), key=r.choice([None, None, 'x_type', 'x_isnone']))
        if op == 'partition_unique':
            u = self._pick()
            return self._new('partition_unique', [u], 'xt', n=r.choice([1, 2, 2, 3]), key=r.choice(['ident', 'x_type', 'x_repr']),
                             keep=r.choice(['first', 'last']))
        if op == 'sliding_window':
            u = self._pick()
            return self._new('sliding_window', [u], 'xt', n=r.choice([1, 2, 3]), partial=r.random() < 0.5)
        if op == 'unique':
            u = self._pick()
            return self._new('unique', [u], K[u], maxsize=r.choice([None, None, 1, 2]), key=r.choice(['ident', 'ident', 'x_type', 'x_repr']),
                             hashable=r.random() < 0.7)
        if op == 'flatten':
            u = self._pick('xt')
            if u is None:
                return None
            return self._new('flatten', [u], 'x')
        if op == 'pluck':
            u = self._pick('xt')
            if u is None:
                return None
            if r.random() < 0.4:
                return self._new('pluck', [u], 'xt', pick=[0, 0])
            return self._new('pluck', [u], 'x', pick=0)
        if op == 'starmap':
            u = self._pick('xt')
            if u is None:
                return None
            f = r.choice(['tup', 'first'])
            return self._new('starmap', [u], 'xt' if f == 'tup' else 'x', f=f, args=[])
        c = self._multi_cands()
        k = min(len(c), r.choice([2, 2, 3]) if op != 'union' else r.choice([1, 2, 2, 3]))
        if k < 1:
            return None
        if k < 2 and op in ('combine_latest', 'zip_latest'):
            return None
        ups = r.sample(c, k)
        if op == 'union':
            kinds = {K[u] for u in ups}
            return self._new('union', ups, K[ups[0]] if len(kinds) == 1 else 'x')
        if op == 'zip':
            lits = [[r.randrange(k + 1), r.choice([None, 0, ''])]] if r.random() < 0.4 else []
            return self._new('zip', ups, 'xt', literals=lits)
        if op == 'combine_latest':
            eo = sorted(r.sample(range(k), r.randrange(1, k + 1))) if r.random() < 0.4 else None
            return self._new('combine_latest', ups, 'xt', emit_on=eo, emit_on_form='index' if eo else None)
        return self._new('zip_latest', ups, 'xt')

    def program(self):
        r = self.r
        self.nodes, self.kind = [], {}
        n_entries = r.choice([1, 1, 2])
        for _ in range(n_entries):
            self._new('source', [], 'x')
        target = r.randrange(2, self.max_nodes + 1)
        tries = 0
        while len(self.nodes) < n_entries + target and tries < 60:
            tries += 1
            self._add(r.choice(self.OPS))
        has_child = set(u for n in self.nodes for u in n['ups'])
        for n in list(self.nodes):
            if n['op'] != 'sink' and (n['id'] not in has_child or r.random() < 0.15):
                self._new('sink', [n['id']], None)
        return {'nodes': self.nodes, 'extra_edges': []}

    def inputs(self, prog, max_len=20):
        r = self.r
        entries = [n['id'] for n in prog['nodes'] if n['op'] == 'source']
        pool = r.choice([EXOTIC, EXOTIC, [None, 0, 1], [None, [None, 1], [1, None], 1]])
        return [[r.choice(entries), r.choice(pool), r.choice([0, 1, 1, 2])] for _ in range(r.randrange(1, max_len + 1))]
