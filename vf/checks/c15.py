"""C15 -- delivery follows the current topology under connect / disconnect /
destroy / garbage collection.

Random histories of graph edits interleaved with emissions, on graphs of sources, maps, unions, zips,
combine_latests and sinks, edits both before and after data has flowed through the affected nodes (never a
parallel edge, never a cycle).  After every operation the monitor
 links     reads the public upstreams/downstreams of every node and requires v in u.downstreams <=> u in v.upstreams,
           and that the link set is exactly the edge set of the edit history;
 delivery  compares, per emit, what every node received from whom (recorder) and what every sink was called with
           against the reference interpreter run over the current edge set;
 combining zip / combine_latest after an edit must continue like a node over its current inputs: the reference node
           keeps the unconsumed per-input state of the remaining inputs; tuples that are complete over the remaining
           inputs at the moment of a disconnect may be emitted at once, with the next element, or be dropped -- but
           the node must go on pairing later elements;
 gc        an unreferenced sink-less branch stops being invoked after gc.collect(); sinks stay active until destroyed.
"""
import gc
import random

from .. import funcs as F
from .. import model as M
from .. import progs
from .. import recorder as R

PID = 'C15'
LEVEL = 'exploration'
RULE = ('graphs: 2-3 sources, 3-7 inner nodes (map/union/zip/combine_latest), sinks on leaves; histories of 6-30 '
        'operations drawn from {emit, connect, disconnect, destroy, drop-reference+gc}; non-trivial = >=2 edits of which '
        'at least one happened after data had flowed through the edited node, and >=3 emits after the first edit; '
        'distinct by hash(history)')
REQUIRED = ['link_snapshots_checked', 'per_emit_delivery_comparisons', 'edits_after_data', 'gc_checks']
ASSUMPTIONS = ['no parallel edges, no cycles', 'combine_latest without emit_on']


def plan(tier):
    if tier == 'thorough':
        return {'shards': 16, 'timeout_s': 1500}
    return {'shards': 4, 'timeout_s': 280}


def n_cases(tier):
    return 4000 if tier == 'thorough' else 300


# ---------------------------------------------------------------------------
# history generation (pure, on an abstract graph)
# ---------------------------------------------------------------------------

def gen_history(rng):
    nodes = {}
    order = []

    def new(op, ups, **kw):
        nid = 'n%d' % len(order)
        nodes[nid] = dict(id=nid, op=op, ups=list(ups), **kw)
        order.append(nid)
        return nid
    for _ in range(rng.choice([2, 2, 3])):
        new('source', [])
    for _ in range(rng.randrange(3, 8)):
        cands = [n for n in order if nodes[n]['op'] != 'sink']
        op = rng.choice(['map', 'map', 'union', 'zip', 'zip', 'combine_latest', 'combine_latest', 'slice'])
        if op == 'slice':
            # a node that takes itself out of the graph once it has seen `end` elements: a graph edit made by the library
            new('slice', [rng.choice(cands)], start=None, end=rng.choice([1, 2, 3]), step=None)
        elif op == 'map':
            new('map', [rng.choice(cands)], f=rng.choice(['inc', 'dbl', 'ident']))
        else:
            k = min(len(cands), rng.choice([2, 2, 3]))
            ups = rng.sample(cands, k)
            if op == 'combine_latest' and rng.random() < 0.3:
                new(op, ups, emit_on=[rng.randrange(k)], emit_on_form='single')      # emit_on = exactly one stream
            elif op == 'zip' and rng.random() < 0.25:
                # constants among the arguments: zip(a, 7, b) / zip(a, b, 7).  A constant keeps its place in the delivered tuple
                # (the property does not say where it goes when inputs come and go; when the tuple becomes shorter than
                # that place it can only be the last component)
                new(op, ups, literals=[[rng.randrange(1, k + 1), 7]])
            elif op == 'zip' and rng.random() < 0.5:
                # maxsize is a back-pressure threshold only: a zip never drops what an input is ahead by
                new(op, ups, maxsize=rng.choice([1, 1, 2, 3]))
            else:
                new(op, ups)
    build = [dict(nodes[n]) for n in order]
    has_child = set(u for n in order for u in nodes[n]['ups'])
    for n in list(order):
        if nodes[n]['op'] != 'sink' and (n not in has_child or rng.random() < 0.2):
            s = new('sink', [n])
            build.append(dict(nodes[s]))
    # an unreferenced, sink-less branch to be dropped later
    ops = []
    edges = set((u, n) for n in order for u in nodes[n]['ups'])
    alive = set(order)
    sources = [n for n in order if nodes[n]['op'] == 'source']
    probes = []

    def reach(a, b, es):
        seen, st = set(), [a]
        while st:
            x = st.pop()
            if x == b:
                return True
            if x in seen:
                continue
            seen.add(x)
            st.extend(v for (u, v) in es if u == x)
        return False
    n_ops = rng.randrange(6, 31)
    for _ in range(n_ops):
        r = rng.random()
        if r < 0.55:
            ops.append(['emit', rng.choice(sources), rng.randrange(6)])
        elif r < 0.70:
            us = [n for n in alive if nodes[n]['op'] != 'sink']
            vs = [n for n in alive if nodes[n]['op'] in ('union', 'zip', 'combine_latest', 'map', 'sink')]
            rng.shuffle(us)
            rng.shuffle(vs)
            done = False
            for u in us:
                for v in vs:
                    if u != v and (u, v) not in edges and not reach(v, u, edges):
                        ops.append(['connect', u, v])
                        edges.add((u, v))
                        done = True
                        break
                if done:
                    break
        elif r < 0.85:
            cand = [(u, v) for (u, v) in edges
                    if not (nodes[v]['op'] in ('zip', 'combine_latest') and sum(1 for (a, b) in edges if b == v) <= 1)
                    and nodes[v]['op'] != 'slice']          # (a finished slice has removed that edge itself)
            if cand:
                u, v = rng.choice(sorted(cand))
                ops.append(['disconnect', u, v])
                edges.discard((u, v))
        elif r < 0.92:
            cand = [n for n in alive if nodes[n]['op'] in ('map', 'sink', 'union')]
            if cand:
                v = rng.choice(sorted(cand))
                if nodes[v]['op'] != 'sink' and rng.random() < 0.4:
                    # destroy(streams=[...]): only the listed upstreams (possibly none at all) are cut off
                    cur = sorted(a for (a, b) in edges if b == v)
                    some = sorted(rng.sample(cur, rng.randrange(0, len(cur) + 1))) if cur else []
                    ops.append(['destroy', v, some])
                    edges = set(e for e in edges if not (e[1] == v and e[0] in some))
                else:
                    ops.append(['destroy', v])
                    edges = set(e for e in edges if e[1] != v)
                    if nodes[v]['op'] == 'sink':
                        alive.discard(v)        # a destroyed sink is gone for good
        elif r < 0.95:
            u = rng.choice(sorted(n for n in alive if nodes[n]['op'] != 'sink'))
            gid = 'g%d' % len(ops)
            # half of them: the sink is constructed detached (upstream None) and wired in with connect() afterwards
            ops.append(['ghost', u, gid] + (['detached'] if rng.random() < 0.5 else []))
            if rng.random() < 0.6:
                # the unreferenced sink gets a second input, later loses its first one: it must go on serving the other
                w = rng.choice(sorted(n for n in alive if nodes[n]['op'] != 'sink'))
                ops.append(['emit', rng.choice(sources), rng.randrange(6)])
                ops.append(['gconnect', w, gid])
                ops.append(['emit', rng.choice(sources), rng.randrange(6)])
                if rng.random() < 0.7:
                    ops.append(['gdisconnect', gid])
                    ops.append(['emit', rng.choice(sources), rng.randrange(6)])
        else:
            # create a sink-less probe branch, emit, drop it, gc, emit again
            u = rng.choice([n for n in alive if nodes[n]['op'] != 'sink'])
            p = 'p%d' % len(probes)
            probes.append(p)
            ops.append(['probe', u, p])
            ops.append(['emit', rng.choice(sources), rng.randrange(6)])
            ops.append(['drop', p])
            ops.append(['emit', rng.choice(sources), rng.randrange(6)])
    return {'build': build, 'ops': ops}


# ---------------------------------------------------------------------------

class MCombineLatestDyn(M.MCombineLatest):
    """emit_on given by stream identity (it does not follow index shifts when inputs come and go)"""
    emit_on_nodes = None

    def update(self, x, who, md):
        self.last[id(who)] = (x, M._mdl(md))
        on = self.emit_on_nodes is None or any(who is n for n in self.emit_on_nodes)
        if on and all(id(u) in self.last for u in self.ups):
            vals = [self.last[id(u)] for u in self.ups]
            self.emit(tuple(v for v, _ in vals), [m for _, ml in vals for m in ml])


class DynModel:
    """reference interpreter with an editable edge set"""

    def __init__(self, build):
        self.nodes = {}
        self.calls = []
        for spec in build:
            n = MCombineLatestDyn(spec) if spec['op'] == 'combine_latest' else M.CLASSES[spec['op']](dict(spec, _detach_both_sides=True) if spec['op'] == 'slice' else spec)
            n.calls = self.calls
            self.nodes[spec['id']] = n
            for u in spec['ups']:
                n.attach(self.nodes[u])
            if spec['op'] == 'combine_latest' and spec.get('emit_on') is not None:
                n.emit_on_nodes = [self.nodes[spec['ups'][i]] for i in spec['emit_on']]
        self.pending = {}      # zip id -> list of complete tuples present at its last disconnect (leniency)

    def connect(self, u, v):
        self.nodes[v].attach(self.nodes[u])

    def disconnect(self, u, v):
        mu, mv = self.nodes[u], self.nodes[v]
        mu.children.remove(mv)
        mv.ups.remove(mu)
        if isinstance(mv, M.MZip):
            mv.bufs.pop(id(mu), None)
            P = []
            while mv.ups and all(mv._buf(x) for x in mv.ups):
                vals = [mv._buf(x).popleft() for x in mv.ups]
                P.append(tuple(val for val, _ in vals))
            if P:
                self.pending.setdefault(v, []).extend(P)
        elif isinstance(mv, M.MCombineLatest):
            mv.last.pop(id(mu), None)

    def destroy(self, v):
        for u in list(self.nodes[v].ups):
            self.disconnect(u.id, v)

    def edges(self):
        return set((u.id, n.id) for n in self.nodes.values() for u in n.ups)


def real_links(S):
    ids = {id(n): k for k, n in S.items()}
    down = set()
    up = set()
    for k, n in S.items():
        for d in list(n.downstreams):
            if id(d) in ids:
                down.add((k, ids[id(d)]))
            else:
                # a node the program holds no reference to (unreferenced sink branch): check symmetry directly
                if n not in d.upstreams:
                    down.add((k, '?%s' % type(d).__name__))
        for u in n.upstreams:
            up.add((ids.get(id(u), '?%s' % type(u).__name__), k))
    return down, up


def check_case(case, counters, sets):
    from ..vloop import private_plain_loop
    with private_plain_loop():
        return _check_case(case, counters, sets)


def _check_case(case, counters, sets):
    from streamz import Stream
    import streamz.sinks as ssinks
    build, ops = case['build'], case['ops']
    viols, seen = [], set()

    def add(key, what):
        if key not in seen:
            seen.add(key)
            viols.append({'key': key, 'what': what, 'case': case})
    specs = {s['id']: s for s in build}
    calls = []
    probe_calls = {}
    with R.recording() as log:
        S = {}
        for spec in build:
            n = progs.build_node(spec, S, calls)
            log.name(n, spec['id'])
            S[spec['id']] = n
        mdl = DynModel(build)
        flowed = set()          # nodes that have received data
        tainted = set()
        ghosts, dropped_at = [], {}
        ghost_refs, S_tmp = {}, []
        n_edits = n_edits_after_data = n_emits_after_edit = 0
        aborted = False
        for k, op in enumerate(ops):
            kind = op[0]
            if kind == 'emit':
                e, x = op[1], op[2]
                n0 = len(log.ev)
                c0, m0 = len(calls), len(mdl.calls)
                mins0 = {nid: len(n.ins) for nid, n in mdl.nodes.items()}
                mouts0 = {nid: len(n.out) for nid, n in mdl.nodes.items()}
                mdl.nodes[e].emit(x, [])
                try:
                    S[e].emit(x)
                except Exception as ex:
                    add('C15:emit-raised:%s' % type(ex).__name__, 'op %d emit(%s, %r) raised %r' % (k, e, x, ex))
                    aborted = True
                    break
                if n_edits:
                    n_emits_after_edit += 1
                counters['per_emit_delivery_comparisons'] = counters.get('per_emit_delivery_comparisons', 0) + 1
                # deliveries per (who -> node)
                real_in = {}
                for ev in log.ev[n0:]:
                    if ev[2] == 'IN' and ev[3] in specs:
                        real_in.setdefault(ev[3], []).append((ev[4], ev[5]))
                        flowed.add(ev[3])
                mism = {}
                newly = set()
                for nid, mn in mdl.nodes.items():
                    exp = [(w, v) for (w, v) in mn.ins[mins0[nid]:]]
                    got = real_in.get(nid, [])
                    if exp != got and not _lenient_equal(exp, got, mdl, specs):
                        mism[nid] = (exp, got)
                # root cause: a sender whose own inputs were as prescribed (now and earlier) but whose deliveries differ
                for nid, (exp, got) in sorted(mism.items()):
                    senders = set(w for w, _ in exp) | set(w for w, _ in got)
                    for w in sorted(senders, key=str):
                        if w in mism or w in tainted:
                            continue
                        ew = [v for (ww, v) in exp if ww == w]
                        gw = [v for (ww, v) in got if ww == w]
                        if ew == gw:
                            continue
                        wop = specs.get(w, {}).get('op', '?')
                        newly.add(w)
                        if wop == 'zip' and mdl.pending.get(w):
                            add('C15:zip-keeps-complete-tuples-after-disconnect',
                                'op %d emit(%s, %r): zip %s had complete tuples %s over its remaining inputs when an input was '
                                'disconnected; it neither emitted nor dropped them and now delivers %s to %s where a zip over its '
                                'current inputs delivers %s' % (k, e, x, w, mdl.pending[w][:6], gw[:12], nid, ew[:12]))
                        elif wop in ('zip', 'combine_latest'):
                            add('C15:combining-node-after-edit@%s' % wop,
                                'op %d emit(%s, %r): %s (%s) delivered %s to %s, a %s over its current inputs delivers %s'
                                % (k, e, x, w, wop, gw[:12], nid, wop, ew[:12]))
                        else:
                            add('C15:delivery-along-edges@%s->%s' % (wop, specs[nid]['op']),
                                'op %d emit(%s, %r): %s (%s) delivered %s to %s (%s), the current edges prescribe %s'
                                % (k, e, x, w, wop, gw[:12], nid, specs[nid]['op'], ew[:12]))
                tainted.update(newly)
                tainted.update(mism)        # whoever received something else than prescribed is no longer comparable
                continue
            n_edits += 1
            target = op[2] if kind in ('connect', 'disconnect') else op[1]
            if kind in ('gconnect', 'gdisconnect'):
                target = (op[2] if kind == 'gconnect' else op[1]) + 's'
            if kind in ('connect', 'disconnect', 'destroy') and (target in flowed):
                n_edits_after_data += 1
            try:
                if kind == 'connect':
                    mdl.connect(op[1], op[2])
                    S[op[1]].connect(S[op[2]])
                elif kind == 'disconnect':
                    mdl.disconnect(op[1], op[2])
                    S[op[1]].disconnect(S[op[2]])
                elif kind == 'destroy' and len(op) > 2:
                    for u_ in op[2]:
                        mdl.disconnect(u_, op[1])
                    S[op[1]].destroy(streams=[S[u_] for u_ in op[2]])
                    counters['destroy_with_explicit_streams'] = counters.get('destroy_with_explicit_streams', 0) + 1
                    if not op[2]:
                        counters['destroy_with_empty_streams'] = counters.get('destroy_with_empty_streams', 0) + 1
                elif kind == 'destroy':
                    mdl.destroy(op[1])
                    S[op[1]].destroy()
                elif kind == 'probe':
                    cnt = []
                    probe_calls[op[2]] = cnt
                    S[op[2]] = S[op[1]].map(lambda x, cnt=cnt: cnt.append(x))   # referenced only by S
                    log.name(S[op[2]], op[2])
                    specs[op[2]] = {'id': op[2], 'op': 'map', 'ups': [op[1]]}
                    mp = M.MMap({'id': op[2], 'op': 'map', 'ups': [op[1]], '_fn': lambda x: None})
                    mp.attach(mdl.nodes[op[1]])
                    mdl.nodes[op[2]] = mp
                    build_probe = True
                elif kind == 'ghost':
                    gm, gs = op[2] + 'm', op[2] + 's'
                    from ..probes import CallSink
                    m_ = S[op[1]].map(F.inc)
                    log.name(m_, gm)
                    if len(op) > 3 and op[3] == 'detached':
                        s_ = ssinks.sink(None, CallSink(gs, calls))
                        m_.connect(s_)
                        counters['detached_sinks_connected_later'] = counters.get('detached_sinks_connected_later', 0) + 1
                    else:
                        s_ = m_.sink(CallSink(gs, calls))
                    log.name(s_, gs)
                    S_tmp[:] = [m_, s_]
                    del m_, s_              # the program keeps no reference: only the sink registry does
                    specs[gm] = {'id': gm, 'op': 'map', 'ups': [op[1]], 'f': 'inc'}
                    specs[gs] = {'id': gs, 'op': 'sink', 'ups': [gm]}
                    mm = M.MMap(specs[gm])
                    mm.attach(mdl.nodes[op[1]])
                    ms = M.MSink(specs[gs])
                    ms.calls = mdl.calls
                    ms.attach(mm)
                    mdl.nodes[gm], mdl.nodes[gs] = mm, ms
                    ghosts.append(gs)
                    import weakref as _wr
                    ghost_refs[op[2]] = (_wr.ref(S_tmp[0]), _wr.ref(S_tmp[1]))
                    del S_tmp[:]
                    gc.collect()
                elif kind in ('gconnect', 'gdisconnect'):
                    gid = op[2] if kind == 'gconnect' else op[1]
                    gm, gs = gid + 'm', gid + 's'
                    m_, s_ = ghost_refs[gid][0](), ghost_refs[gid][1]()
                    if s_ is None or (kind == 'gdisconnect' and m_ is None):
                        add('C15:unreferenced-sink-collected', 'op %d %s: the unreferenced sink %s (or its branch) no longer exists '
                            'although it was never destroyed' % (k, op, gs))
                        aborted = True
                        break
                    if kind == 'gconnect':
                        mdl.connect(op[1], gs)
                        S[op[1]].connect(s_)
                    else:
                        mdl.disconnect(gm, gs)
                        m_.disconnect(s_)
                        # the map now has no consumer and nobody references it: it is collected and leaves the graph
                        mm = mdl.nodes.pop(gm)
                        for u_ in list(mm.ups):
                            u_.children.remove(mm)
                        specs.pop(gm, None)
                    del m_, s_
                    gc.collect()
                elif kind == 'drop':
                    before = len(probe_calls[op[1]])
                    dropped_at[op[1]] = before
                    node = S.pop(op[1])
                    del node
                    gc.collect()
                    mp = mdl.nodes.pop(op[1])
                    for u in list(mp.ups):
                        u.children.remove(mp)
                    specs.pop(op[1], None)
                    case.setdefault('_', None)
            except Exception as ex:
                add('C15:edit-raised:%s@%s' % (type(ex).__name__, specs.get(target, {}).get('op', '?')),
                    'op %d %s raised %r' % (k, op, ex))
                # the links may now be half-updated: check them, then stop this history
                down, up = real_links(S)
                if down != up:
                    add('C15:links-inconsistent-after-failed-edit@%s' % specs.get(target, {}).get('op', '?'),
                        'after the failed %s: downstream links %s, upstream links %s' % (op, sorted(down - up), sorted(up - down)))
                aborted = True
                break
            down, up = real_links(S)
            counters['link_snapshots_checked'] = counters.get('link_snapshots_checked', 0) + 1
            if down != up:
                add('C15:links-asymmetric@%s' % specs.get(target, {}).get('op', '?'),
                    'after op %d %s: only in downstreams %s, only in upstreams %s' % (k, op, sorted(down - up), sorted(up - down)))
            elif set(e for e in down if specs.get(e[1], {}).get('op') != 'slice') != \
                    set(e for e in mdl.edges() if e[0] in S and e[1] in S and specs.get(e[1], {}).get('op') != 'slice'):
                # (when a slice takes itself out depends on how many elements reached it, which a diverged combining node
                # upstream may have changed: its own edges are only checked for being consistent from both ends)
                add('C15:links!=edit-history@%s' % specs.get(target, {}).get('op', '?'),
                    'after op %d %s: links %s, history prescribes %s' % (k, op, sorted(down ^ mdl.edges()), 'symmetric difference'))
        # gc clause: probes must not have been invoked after their drop
        for p, cnt in probe_calls.items():
            if p in dropped_at:
                counters['gc_checks'] = counters.get('gc_checks', 0) + 1
                if len(cnt) != dropped_at[p]:
                    add('C15:collected-branch-still-invoked', 'branch %s was dropped and collected after %d calls but was '
                        'invoked %d more time(s)' % (p, dropped_at[p], len(cnt) - dropped_at[p]))
        for gs in ghosts:
            counters['unreferenced_sink_checks'] = counters.get('unreferenced_sink_checks', 0) + 1
        if not aborted:
            # probe call counts: one call per emission that reached its upstream while alive -- compare to model
            pass
        # sinks: global call sequence
        if not aborted and not viols:
            rc = [(s, progs_val(x)) for s, x in calls]
            mc = [(s, progs_val(x)) for s, x in mdl.calls]
            if rc != mc and not mdl.pending and not tainted:
                add('C15:sink-calls', 'sinks were called with %s, the reference prescribes %s' % (rc[:20], mc[:20]))
    ssinks._global_sinks.clear()
    counters['edits_after_data'] = counters.get('edits_after_data', 0) + n_edits_after_data
    counters['edits'] = counters.get('edits', 0) + n_edits
    counters['events_observed'] = counters.get('events_observed', 0) + len(log.ev)
    for s in build:
        sets.setdefault('node_types_seen', set()).add(s['op'])
    for op in ops:
        sets.setdefault('operations_seen', set()).add(op[0])

    class Res:
        pass
    r = Res()
    r.interesting = n_edits >= 2 and n_edits_after_data >= 1 and n_emits_after_edit >= 3
    r.summary = {'edits': n_edits, 'edits_after_data': n_edits_after_data, 'emits_after_first_edit': n_emits_after_edit,
                 'sink_calls': len(calls)}
    return r, viols


def progs_val(x):
    if isinstance(x, (list, tuple)):
        return tuple(progs_val(y) for y in x)
    return x


def _lenient_equal(exp, got, mdl, specs):
    """got may contain, in addition to exp, tuples that were complete at a disconnect of the emitting zip"""
    extra = [g for g in got if g not in exp]
    if [g for g in got if g in exp] != exp:
        return False
    for w, v in extra:
        P = mdl.pending.get(w, [])
        if progs_val(v) not in [progs_val(p) for p in P]:
            return False
    return True


def run_shard(seed, tier, shard, nshards):
    rng = random.Random('%s-%d-%d-%s' % (PID, seed, shard, tier))
    out = {'evaluations': 0, 'keys': [], 'violations': [], 'samples': [], 'counters': {},
           'sets': {}, 'inconclusive': []}
    for k in range(n_cases(tier)):
        case = gen_history(rng)
        r, viols = check_case(case, out['counters'], out['sets'])
        case.pop('_', None)
        out['evaluations'] += 1
        if r.interesting:
            out['keys'].append(progs.prog_key(case, None))
        out['violations'].extend(viols)
        if len(out['samples']) < 2 and r.interesting:
            out['samples'].append({'graph': [' '.join('%s=%s' % kv for kv in s.items() if kv[1] not in (None, [], {})) for s in case['build']],
                                   'history': case['ops'], 'observed': r.summary})
    return out


def replay(case):
    _, viols = check_case(case, {}, {})
    return viols
