"""C02 -- asynchronous timing never changes what lossless pipelines deliver.

Runs generated pipelines containing the lossless asynchronous nodes on the
virtual-time loop, with producers and consumers (native coroutines, functions
returning Futures, plain functions) whose arrival / completion instants are
drawn from a grid built to force coincidences and out-of-order completions.
The recorded node-boundary history is then checked by the local + edge oracle
(vf/asyncrun.local_checks): every node's outputs are what its documented meaning
prescribes for the inputs it actually received in that order, every edge
delivers everything in order, every sink is called once per delivery and every
awaitable it returns is awaited exactly once.  Loop-level exceptions and
exceptions carried by emit are violations.
"""
import random

from .. import aprogs, asyncrun, progs

PID = 'C02'
LEVEL = 'exploration'
RULE = ('seeded async programs (1-2 entries, 3-9 nodes, >=1 of buffer/delay/rate_limit/map_async/timed_window/'
        'partition(timeout), joined by zip/union, mixed with synchronous nodes) x 1-3 producers (awaiting or not) with '
        'gaps from {0,.25,.5,1,3} x consumer kinds {sync, native coroutine, Future} with service times from '
        '{0,.25,.5,1,1.5,2}; non-trivial = >=1 element reached a sink through an asynchronous node; distinct by '
        'hash(case); interleaving signature = hash of the sequence of (event kind, node)')
REQUIRED = ['edges_checked', 'sink_sequences_checked', 'runs_settled']
ASSUMPTIONS = ['asyncio FIFO ready-queue discipline; schedules = those reachable by varying arrival and completion instants',
               'virtual time: timers fire exactly when due']
INCONCLUSIVE_BUDGET = 0.03


def plan(tier):
    if tier == 'thorough':
        return {'shards': 16, 'timeout_s': 1700}
    return {'shards': 8, 'timeout_s': 280}


def n_cases(tier):
    return 20000 if tier == 'thorough' else 300


def one_case(rng, tier):
    g = aprogs.AGen(rng, max_nodes=7)
    prog = g.program()
    prods = g.producers(prog, max_total=20)
    case = {'prog': prog, 'producers': prods, 'awaiting': rng.random() < 0.7}
    if rng.random() < 0.12:
        for s_ in case['prog']['nodes']:
            if s_['op'] == 'sink' and s_.get('kind') == 'sync':
                # a plain function that takes its time on the loop thread: no timer can fire meanwhile
                s_['kind'] = 'sync_block'
                s_['svc'] = [rng.choice([0, 0, 0.25, 0.75, 1.5]) for _ in range(3)]
    if rng.random() < 0.2:
        case['t0'] = 1.7e9          # a clock that reads like time.time(), not like a stopwatch
    ma = [s_['id'] for s_ in prog['nodes'] if s_['op'] == 'map_async']
    if ma and rng.random() < 0.4:
        # the node is stopped and started again from outside while elements are on their way (every stop is followed by a
        # start): what it delivers, and in which order, must not depend on that
        for _ in range(rng.choice([1, 1, 2])):
            p = rng.choice(prods)
            pos = rng.randrange(len(p) + 1)
            nid = rng.choice(ma)
            # (a stop that no start follows would legitimately leave elements waiting: later input may never reach the node,
            # held up by the back-pressure of what is waiting in front of it)
            calls = rng.choice([['stop', 'start'], ['stop', 'start'], ['start'], ['stop', 'stop', 'start'], ['start', 'start']])
            for j, c in enumerate(calls):
                p.insert(pos + j, [rng.choice([0, 0, -1, -2, 0.25, 0.5, 1.0]), '!call', [nid, c], 0])
    return case


def check_case(case, counters, sets):
    ar = asyncrun.run_async(case)
    viols, seen = [], set()

    def add(key, what):
        if key not in seen:
            seen.add(key)
            viols.append({'key': key, 'what': what, 'case': case})
    if ar.stop in ('iter-cap', 'vt-cap', 'watchdog'):
        return ar, None
    counters['runs_settled'] = counters.get('runs_settled', 0) + 1
    V, C = asyncrun.local_checks(case, ar)
    for k, v in C.items():
        counters[k] = counters.get(k, 0) + v
    counters['events_observed'] = counters.get('events_observed', 0) + len(ar.log.ev)
    for clause, op, detail in V:
        add('C02:%s@%s' % (clause, op), str(detail))
    for name, msg, exc in ar.errors:
        add('C02:loop-exception:%s' % (type(exc).__name__ if exc is not None else 'log'),
            '%s: %s %r' % (name, msg[:300], exc))
    for i, exc in ar.emit_exc.items():
        add('C02:emit-raised:%s' % type(exc).__name__, 'emit #%d raised %r' % (i, exc))
    if not ar.producers_done or ar.pending_emits:
        add('C02:emit-never-completed', 'settled (%s) with emits still pending: %s'
            % (ar.stop, sorted(ar.pending_emits)[:10]))
    sets.setdefault('interleaving_signatures', set()).add(asyncrun.signature(ar.log))
    for s in case['prog']['nodes']:
        sets.setdefault('node_types_seen', set()).add(s['op'] + ('+timeout' if asyncrun.is_async_partition(s) else ''))
        if s['op'] == 'sink':
            sets.setdefault('consumer_kinds', set()).add(s.get('kind', 'sync'))
    return ar, viols


def nontrivial(case, ar):
    return any(e[2] == 'START' for e in ar.log.ev)


def run_shard(seed, tier, shard, nshards):
    rng = random.Random('%s-%d-%d-%s' % (PID, seed, shard, tier))
    out = {'evaluations': 0, 'keys': [], 'violations': [], 'samples': [], 'counters': {},
           'sets': {}, 'inconclusive': []}
    for k in range(n_cases(tier)):
        case = one_case(rng, tier)
        ar, viols = check_case(case, out['counters'], out['sets'])
        out['evaluations'] += 1
        if viols is None:
            out['inconclusive'].append('case %d: %s' % (k, ar.stop))
            continue
        if nontrivial(case, ar):
            out['keys'].append(progs.prog_key(case['prog'], [case['producers'], case['awaiting']]))
        out['violations'].extend(viols)
        if len(out['samples']) < 2 and len(ar.log.ev) > 60:
            out['samples'].append({'program': [' '.join('%s=%s' % kv for kv in s.items() if kv[1] not in (None, [], {})) for s in case['prog']['nodes']],
                                   'producers': case['producers'], 'awaiting': case['awaiting'],
                                   'log_excerpt': ['%.2f %s %s %s' % (e[1], e[2], e[3], repr(e[4])[:30]) for e in ar.log.ev[:40]]})
    return out


def replay(case):
    _, viols = check_case(case, {}, {})
    return viols or []
