"""C17 -- file-based sources deliver every record exactly once however the data arrives.

from_textfile: a text over a tiny alphabet that contains the delimiter's own characters is encoded and appended to a
real temporary file in random byte chunks (splitting records, delimiters and even UTF-8 sequences) with 0, 1 or 2 polls
between chunks (virtual time).  Oracle: the concatenation of the emitted records equals the written text up to its last
delimiter, every record ends with the delimiter and contains it only there, the unterminated tail is never emitted;
with from_end=True only what was appended after construction counts.
filenames: files are created in random order between polls; every path is emitted exactly once and the names emitted
within one poll cycle are sorted.
"""
import os
import random
import shutil
import tempfile

from .. import progs
from .. import recorder as R
from ..vloop import virtual_env

PID = 'C17'
LEVEL = 'exploration'
RULE = ('from_textfile: delimiters {\\n, ",", "||", "ab", "\\r\\n"(newline=""), "é|"}; texts of 0-14 records over an '
        'alphabet containing the delimiter characters and multi-byte characters, optional unterminated tail; byte-level '
        'chunking into 1-12 chunks; 0/1/2 polls between chunks; from_end on/off with pre-existing content; path or file '
        'object; filenames: 1-10 files in random creation order over 1-5 polls, glob or directory path. non-trivial = at '
        'least 2 records (files) and at least one chunk boundary inside a record or delimiter (files: >=2 in one poll); '
        'distinct by hash(case)')
REQUIRED = ['textfile_runs', 'records_compared', 'filenames_runs', 'poll_cycles_sorted_checked']
ASSUMPTIONS = ['"\\r" only appears when the harness passes a file object opened with newline="" (otherwise Python\'s '
               'universal-newline translation, not streamz, rewrites it)']
INCONCLUSIVE_BUDGET = 0.03


def plan(tier):
    if tier == 'thorough':
        return {'shards': 16, 'timeout_s': 1700}
    return {'shards': 8, 'timeout_s': 280}


def n_cases(tier):
    return 18000 if tier == 'thorough' else 400


DELIMS = ['\n', '\n', ',', '||', 'ab', '\r\n', 'é|']


def one_case(rng, tier):
    if rng.random() < 0.25:
        n = rng.randrange(1, 11)
        names = ['%s%02d.dat' % (rng.choice('abz'), i) for i in range(n)]
        rng.shuffle(names)
        sched = []
        for nm in names:
            sched.append([rng.choice([0, 0, 0.3, 1.0, 1.0, 2.5]), nm])
        if rng.random() < 0.25:
            # a matching path that is a symbolic link whose target does not exist (yet): it matches, so it is emitted
            sched.append([rng.choice([0, 0.3, 1.0]), 'l%02d.dat' % len(names), 'link'])
        if rng.random() < 0.3:
            # a path that has been emitted disappears, stays away for at least one poll, and is created again: it is the
            # same path, so it is not emitted a second time
            nm = rng.choice(names)
            sched.append([rng.choice([1.5, 2.5]), nm, 'rm'])
            sched.append([rng.choice([1.5, 2.5, 3.0]), nm])
        return {'kind': 'filenames', 'schedule': sched, 'glob': rng.random() < 0.5, 'poll': 1.0,
                # how the directory / pattern is spelled: 'dir', 'dir/' (trailing separator), 'dir/*.dat', 'dir/???.dat'
                # 'glob_sub': the matches lie in several sub-directories ('dir/*/*.dat'): sorted means sorted as paths
                'path_form': rng.choice(['dir', 'dir_slash', 'glob', 'glob_q', 'glob_sub']),
                'second_watcher': rng.random() < 0.3,
                'preexisting': rng.randrange(0, 3),
                # the consumer stops the source while a batch is being delivered and it is started again later
                'stop_on_delivery': rng.randrange(0, n) if rng.random() < 0.4 else None,
                'restart_after': rng.choice([0.0, 0.5, 1.5])}
    d = rng.choice(DELIMS)
    alpha = list(set(list(d) + list(rng.choice(['xy', 'a', 'ab|', 'é中', 'x,', 'x\r', '\r\n' if d not in ('\n', '\r\n') else 'y'])))) + ['q']
    recs = []
    for _ in range(rng.randrange(0, 15)):
        body = ''.join(rng.choice(alpha) for _ in range(rng.randrange(0, 6)))
        while d in body or (body + d).index(d) != len(body):
            body = body.replace(d[0], 'q')
        recs.append(body)
    tail = ''
    if rng.random() < 0.5:
        tail = ''.join(rng.choice(alpha) for _ in range(rng.randrange(1, 5)))
        while d in tail or d in (tail + d)[:-1] and (tail + d).index(d) != len(tail):
            tail = tail.replace(d[0], 'q')
        # the tail must not complete a delimiter together with nothing else
        if d in tail:
            tail = 'q'
    text = ''.join(r + d for r in recs) + tail
    data = text.encode('utf8')
    k = rng.randrange(1, 13)
    cuts = sorted(rng.sample(range(1, len(data)), min(k - 1, max(0, len(data) - 1)))) if len(data) > 1 else []
    chunks = [list(data[a:b]) for a, b in zip([0] + cuts, cuts + [len(data)])]
    gaps = [rng.choice([0, 0.5, 1.0, 1.0, 2.0]) for _ in chunks]
    pre = ''
    from_end = rng.random() < 0.3
    if rng.random() < 0.4:
        pre = ''.join(rng.choice(alpha) for _ in range(rng.randrange(1, 6))) + d
        if rng.random() < 0.3:
            pre += 'q'          # pre-existing unterminated tail
    restarts = []
    if rng.random() < 0.3:
        total = 0.25 + sum(gaps)
        t0 = round(rng.uniform(0.3, max(0.4, total)), 2)
        restarts.append([t0, round(t0 + rng.choice([0.0, 0.5, 1.5, 3.0]), 2)])
    return {'kind': 'textfile', 'delimiter': d, 'chunks': chunks, 'gaps': gaps, 'pre': pre, 'from_end': from_end,
            'poll': 1.0, 'as_path': rng.random() < 0.5, 'restarts': restarts,
            'consumer_svc': rng.choice([0, 0, 0, 1.5, 2.5])}


def check_case(case, counters, sets):
    from streamz import Stream
    viols, seen = [], set()

    def add(key, what):
        if key not in seen:
            seen.add(key)
            viols.append({'key': key, 'what': what, 'case': case})
    tmp = tempfile.mkdtemp(prefix='c17-')
    interesting = False
    try:
        with virtual_env() as env:
            loop = env.loop
            with R.recording(env.now) as log:
                got = []
                if case['kind'] == 'textfile':
                    d = case['delimiter']
                    path = os.path.join(tmp, 'f.txt')
                    with open(path, 'wb') as f:
                        f.write(case['pre'].encode('utf8'))
                    if case['as_path']:
                        src = Stream.from_textfile(path, poll_interval=case['poll'], delimiter=d,
                                                   from_end=case['from_end'], asynchronous=True)
                        fh = src.file
                    else:
                        fh = open(path, newline='', encoding='utf8')
                        src = Stream.from_textfile(fh, poll_interval=case['poll'], delimiter=d,
                                                   from_end=case['from_end'], asynchronous=True)
                    svc = case.get('consumer_svc') or 0
                    if svc:
                        # a consumer that takes (virtual) time: the source is held back at a record while more data arrives
                        import asyncio as _aio

                        async def slow(x):
                            await _aio.sleep(svc if len(got) % 2 == 0 else 0)
                            got.append((loop.time(), x))
                        src.sink(slow)
                        counters['textfile_runs_with_slow_consumer'] = counters.get('textfile_runs_with_slow_consumer', 0) + 1
                    else:
                        src.sink(lambda x: got.append((loop.time(), x)))
                    wf = open(path, 'ab')
                    t = 0.25 + sum(case['gaps'])
                    todo = list(zip(case['chunks'], case['gaps']))

                    def w():
                        # strictly in order: each write schedules the next one
                        chunk, _ = todo.pop(0)
                        wf.write(bytes(chunk))
                        wf.flush()
                        while todo and todo[0][1] == 0:
                            chunk, _ = todo.pop(0)      # same instant: one larger write
                            wf.write(bytes(chunk))
                            wf.flush()
                        if todo:
                            loop.call_later(todo[0][1], w)
                    if todo:
                        loop.call_later(0.25 + todo[0][1], w)
                    src.start()
                    for t_stop, t_start in case.get('restarts', []):
                        # the source is stopped and started again while data keeps being appended
                        def stop_then_start(gap=max(0.0, t_start - t_stop)):
                            src.stop()
                            if gap:
                                loop.call_later(gap, src.start)
                            else:
                                src.start()
                        loop.call_later(t_stop, stop_then_start)
                        t = max(t, t_start)
                        counters['textfile_restart_runs'] = counters.get('textfile_restart_runs', 0) + 1
                    slack = 16 * svc          # up to 14 records, every other one held for svc
                    loop.drive(until_vt=t + 4 * case['poll'] + 1 + slack, max_iters=200000)
                    src.stop()
                    loop.drive(until_vt=t + 7 * case['poll'] + 1 + 2 * slack, max_iters=50000)
                    wf.close()
                    fh.close()
                    new = bytes(b for c in case['chunks'] for b in c).decode('utf8')
                    whole = new if case['from_end'] else case['pre'] + new
                    if case['from_end'] and case['pre'] and not case['pre'].endswith(d):
                        # a pre-existing unterminated tail is not part of what is "appended after construction";
                        # the first record appended then completes it on disk -- the property speaks about appended data
                        pass
                    # expected records
                    parts = whole.split(d)
                    exp = [p + d for p in parts[:-1]]
                    recs = [x for _, x in got]
                    counters['textfile_runs'] = counters.get('textfile_runs', 0) + 1
                    counters['records_compared'] = counters.get('records_compared', 0) + len(exp)
                    if recs != exp:
                        if ''.join(recs) == ''.join(exp):
                            add('C17:record-boundaries@from_textfile', 'delimiter %r: expected records %r, emitted %r' % (d, exp[:20], recs[:20]))
                        elif len(recs) > len(exp) and recs[:len(exp)] == exp:
                            add('C17:tail-or-extra-emitted@from_textfile', 'delimiter %r: text %r, emitted beyond the last delimiter: %r' % (d, whole[-40:], recs[len(exp):][:5]))
                        elif any(recs.count(r) > exp.count(r) for r in set(recs)):
                            add('C17:record-duplicated@from_textfile', 'delimiter %r: expected %r, emitted %r' % (d, exp[:20], recs[:20]))
                        else:
                            add('C17:records-lost-or-altered@from_textfile', 'delimiter %r: expected %r, emitted %r' % (d, exp[:20], recs[:20]))
                    data = bytes(b for c in case['chunks'] for b in c)
                    # did a chunk boundary fall inside a record / delimiter?
                    pos, inside = 0, False
                    enc_d = d.encode('utf8')
                    for c in case['chunks'][:-1]:
                        pos += len(c)
                        before = data[:pos]
                        if not before.endswith(enc_d):
                            inside = True
                    interesting = len(exp) >= 2 and inside
                    sets.setdefault('delimiters', set()).add(repr(d))
                else:
                    form = case.get('path_form') or ('glob' if case['glob'] else 'dir')
                    pat = {'glob': os.path.join(tmp, '*.dat'), 'dir': tmp, 'dir_slash': tmp + os.path.sep,
                           'glob_q': os.path.join(tmp, '???.dat'), 'glob_sub': os.path.join(tmp, '*', '*.dat')}[form]
                    sets.setdefault('filenames_path_forms', set()).add(form)

                    def loc(nm):
                        # where a name lives, relative to the watched directory
                        if form != 'glob_sub':
                            return nm
                        import zlib
                        return os.path.join('cba'[zlib.crc32(nm.encode()) % 3], nm)
                    if form == 'glob_sub':
                        for sub in 'abc':
                            os.mkdir(os.path.join(tmp, sub))
                    for i in range(case['preexisting']):
                        open(os.path.join(tmp, loc('p%02d.dat' % i)), 'w').close()
                    cycles = {'n': 0}
                    src = Stream.filenames(pat, poll_interval=case['poll'], asynchronous=True)
                    orig = src._run

                    async def cyc():
                        cycles['n'] += 1
                        await orig()
                    src._run = cyc
                    def on_file(x):
                        got.append((cycles['n'], os.path.relpath(x, tmp)))
                        if case.get('stop_on_delivery') is not None and len(got) - 1 == case['stop_on_delivery']:
                            src.stop()
                            counters['filenames_stopped_mid_batch'] = counters.get('filenames_stopped_mid_batch', 0) + 1
                            if case.get('restart_after'):
                                loop.call_later(case['restart_after'], src.start)
                            else:
                                loop.call_soon(src.start)
                    src.sink(on_file)
                    t = 0.25 + sum(s[0] for s in case['schedule'])
                    todo = list(case['schedule'])

                    def mk():
                        ent = todo.pop(0)
                        nm = ent[1]
                        if len(ent) > 2 and ent[2] == 'link':
                            os.symlink(os.path.join(tmp, 'target-that-does-not-exist'), os.path.join(tmp, loc(nm)))
                            counters['filenames_dangling_links'] = counters.get('filenames_dangling_links', 0) + 1
                        elif len(ent) > 2:
                            os.remove(os.path.join(tmp, loc(nm)))
                            counters['filenames_paths_removed_and_recreated'] = counters.get('filenames_paths_removed_and_recreated', 0) + 1
                        else:
                            open(os.path.join(tmp, loc(nm)), 'w').close()
                        if todo:
                            loop.call_later(todo[0][0], mk)
                    if todo:
                        loop.call_later(0.25 + todo[0][0], mk)
                    src.start()
                    loop.drive(until_vt=t + 3 * case['poll'] + 1, max_iters=200000)
                    src.stop()
                    loop.drive(until_vt=t + 6 * case['poll'] + 1, max_iters=50000)
                    counters['filenames_runs'] = counters.get('filenames_runs', 0) + 1
                    if case.get('second_watcher'):
                        # another source over the same paths in the same process: it has emitted nothing yet, so it
                        # emits every path that exists
                        got2 = []
                        src2 = Stream.filenames(pat, poll_interval=case['poll'], asynchronous=True)
                        src2.sink(lambda x: got2.append(os.path.relpath(x, tmp)))
                        src2.start()
                        loop.drive(until_vt=loop.time() + 2 * case['poll'] + 0.5, max_iters=50000)
                        src2.stop()
                        loop.drive(until_vt=loop.time() + case['poll'] + 0.5, max_iters=20000)
                        on_disk = sorted(os.listdir(tmp)) if form != 'glob_sub' else sorted(
                            os.path.join(sub, f) for sub in 'abc' for f in os.listdir(os.path.join(tmp, sub)))
                        counters['filenames_second_watchers'] = counters.get('filenames_second_watchers', 0) + 1
                        if sorted(got2) != on_disk:
                            add('C17:path-missing@filenames-second-source', 'a second source over the same directory emitted %s; the '
                                'directory holds %s' % (sorted(got2), on_disk))
                    names = [n for _, n in got]
                    expected = sorted(set([loc('p%02d.dat' % i) for i in range(case['preexisting'])] + [loc(s[1]) for s in case['schedule']]))
                    if sorted(names) != expected:
                        if len(names) > len(set(names)):
                            add('C17:path-emitted-twice@filenames', 'created %s, emitted %s' % (expected, names))
                        else:
                            add('C17:path-missing@filenames', 'created %s, emitted %s' % (expected, names))
                    by_cycle = {}
                    for c, n in got:
                        by_cycle.setdefault(c, []).append(n)
                    multi = False
                    for c, ns in by_cycle.items():
                        counters['poll_cycles_sorted_checked'] = counters.get('poll_cycles_sorted_checked', 0) + 1
                        multi = multi or len(ns) >= 2
                        if ns != sorted(ns):
                            add('C17:unsorted-within-poll@filenames', 'poll cycle %d emitted %s' % (c, ns))
                    interesting = len(names) >= 2 and multi
                errors = list(env.errors)
        if any(isinstance(exc, UnicodeDecodeError) for _, _, exc in errors):
            # mechanism: a poll read the first bytes of a multi-byte character; read() raised, the polling loop died
            viols[:] = []
            seen.clear()
            add('C17:source-dies-on-partial-multibyte-character@from_textfile',
                'a poll caught the file with an incomplete UTF-8 sequence at its end: file.read() raised %r inside the polling '
                'loop, which ended; nothing further was emitted' % ([exc for _, _, exc in errors if isinstance(exc, UnicodeDecodeError)][0],))
        else:
            for name, msg, exc in errors:
                add('C17:loop-exception:%s' % (type(exc).__name__ if exc is not None else 'log'), '%s %s %r' % (name, msg[:200], exc))
    finally:
        shutil.rmtree(tmp, ignore_errors=True)

    class Res:
        pass
    r = Res()
    r.interesting = interesting
    r.got = [x for _, x in got][:12]
    return r, viols


def run_shard(seed, tier, shard, nshards):
    rng = random.Random('%s-%d-%d-%s' % (PID, seed, shard, tier))
    out = {'evaluations': 0, 'keys': [], 'violations': [], 'samples': [], 'counters': {},
           'sets': {}, 'inconclusive': []}
    for k in range(n_cases(tier)):
        case = one_case(rng, tier)
        r, viols = check_case(case, out['counters'], out['sets'])
        out['evaluations'] += 1
        if r.interesting:
            out['keys'].append(progs.prog_key(case, None))
        out['violations'].extend(viols)
        if len(out['samples']) < 3 and r.interesting:
            c = dict(case)
            if 'chunks' in c:
                c['chunks'] = [bytes(x).decode('latin1') for x in c['chunks']]
            out['samples'].append({'case': c, 'emitted': r.got})
    return out


def replay(case):
    _, viols = check_case(case, {}, {})
    return viols
