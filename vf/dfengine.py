"""E6 -- dataframe differential engine (DESIGN.md section 1.6).

Runs REAL streamz.dataframe pipelines on generated tables that are split into
batches, records what each ``emit`` produced (or raised), and offers the pandas
side of every operation so that the checks C06 / C07 / C11 / C12 can compare.

Everything here is replayable from a json-able *case*::

    {'tab':   {'x': [floats|None], 'y': [ints], 'g': [str], 'h': [ints],
               't': None | [non-decreasing int seconds]},
     'sizes': [rows per batch, zeros allowed],
     'ex':    'empty' | 'rows',              # example handed to the collection
     'op':    {... see build() ...}}

Tables: x = small dyadic rationals (sums and sums of squares are exact in
binary floating point), y = small ints, g/h = few string/int keys, optional
NaNs in x, RangeIndex or non-decreasing DatetimeIndex on a 1 s grid.

Comparison (``compare``): values equal with rtol=atol=1e-9, NaN==NaN, index
labels equal after sorting (or positionally for row-aligned results); dtype and
names are ignored.
"""
import copy
import hashlib
import json
import logging
import operator
import warnings

import numpy as np
import pandas as pd

from streamz import Stream
from streamz.dataframe import DataFrame, Series
from streamz.dataframe import aggregations as AG

RTOL = ATOL = 1e-9
# Absolute tolerance in force while a table with a constant, not exactly representable x column is compared: the running
# sums of squares of the streaming variance cancel (error of the order n * eps * x**2 in the variance, its square root in
# the standard deviation).  How accurate a streaming variance has to be is not the properties' subject; that it is a
# number where pandas has one (not NaN from a slightly negative variance) still is.
TOL = {'atol': ATOL}
EPOCH = pd.Timestamp('2000-01-01')
NO = object()                      # "no start= given"

CMP = {'>': operator.gt, '>=': operator.ge, '<': operator.lt, '<=': operator.le,
       '==': operator.eq, '!=': operator.ne}


# --------------------------------------------------------------------------
# tables and splits
# --------------------------------------------------------------------------

def _keys(rng, n, pool, style):
    if style == 'iid':
        return [rng.choice(pool) for _ in range(n)]
    if style == 'bookend' and n >= 3 and len(pool) >= 2:
        # one key only at the two ends: it leaves every window and re-enters
        mid = [rng.choice(pool[:-1]) for _ in range(n - 2)]
        return [pool[-1]] + mid + [pool[-1]]
    out, k = [], rng.choice(pool)            # runs: a key vanishes for a while, then returns
    while len(out) < n:
        out.extend([k] * rng.randrange(1, 4))
        k = rng.choice(pool)
    return out[:n]


def gen_table(rng, n=None, time=None, nan=False, inf=False):
    if n is None:
        n = rng.choice([2, 3, 4, 5, 6, 7, 8, 10, 12, 16])
    if time is None:
        time = rng.random() < 0.5
    x = [rng.randrange(-12, 13) / 4.0 for _ in range(n)]
    if rng.random() < 0.12:
        # a (nearly) constant column of a value that is not exactly representable: sums of squares cancel badly, and a total
        # from which everything has been subtracted again keeps a residue
        c = rng.choice([0.1, 0.3])
        x = [c for _ in range(n)]
    y = [rng.randrange(0, 6) for _ in range(n)]
    g = _keys(rng, n, ['a', 'b', 'c', 'd'][:rng.choice([2, 3, 3, 4])], rng.choice(['iid', 'runs', 'bookend']))
    h = _keys(rng, n, [0, 1, 2][:rng.choice([2, 3])], rng.choice(['iid', 'runs', 'bookend']))
    if nan:
        p = rng.choice([0.15, 0.3, 0.6])
        x = [None if rng.random() < p else v for v in x]
        if rng.random() < 0.25:
            for i in range(min(n, rng.randrange(1, 3))):     # leading all-NaN run
                x[i] = None
        if rng.random() < 0.25:
            for i in range(min(n, rng.randrange(1, 4))):     # trailing all-NaN run: the last windows hold no observation at all
                x[n - 1 - i] = None
        if not any(v is None for v in x):
            x[rng.randrange(n)] = None
    if inf and rng.random() < 0.06:
        # +-inf among the values (only where no aggregation has to take values out again: inf - inf is NaN for everybody)
        x[0 if rng.random() < 0.6 else rng.randrange(n)] = float('inf') if rng.random() < 0.5 else float('-inf')
    t = None
    if time:
        t, cur = [], 0
        for _ in range(n):
            cur += rng.choice([0, 0, 1, 1, 1, 2, 3, 6])
            t.append(cur)
    out = {'x': x, 'y': y, 'g': g, 'h': h, 't': t}
    if time and rng.random() < 0.35:
        # resolution of the DatetimeIndex (pandas' default for these values is microseconds): with 's' the rows sit exactly
        # one index tick apart
        out['t_unit'] = rng.choice(['s', 's', 'ms', 'ns'])
    if time and rng.random() < 0.25:
        # rows a nanosecond or two after a whole second: a row can then sit exactly one tick inside a window's lower bound
        sub, prev_s, lo = [], None, 0
        for s_ in t:
            lo = lo if s_ == prev_s else 0
            lo = rng.choice([lo, lo, lo + 1]) if lo < 3 else lo
            sub.append(lo)
            prev_s = s_
        out['t_sub'] = sub
        out['t_unit'] = 'ns'
    if time and rng.random() < 0.4:
        out['ex_time'] = 'early'
    if rng.random() < 0.1:
        # a narrow integer column whose squares do not fit its own type (pandas computes variances in float64)
        dt = rng.choice(['int8', 'int16', 'int32'])
        lo = {'int8': 90, 'int16': 150, 'int32': 50000}[dt]
        out['y'] = [lo + v * {'int8': 5, 'int16': 9, 'int32': 1700}[dt] for v in out['y']]
        out['y_dtype'] = dt
    if rng.random() < 0.2:
        out['g_cat'] = True         # the key column g is categorical and declares categories that never occur
    return out


def table_df(tab):
    n = len(tab['y'])
    if tab.get('t') is not None:
        sub = tab.get('t_sub') or [0] * len(tab['t'])
        idx = pd.DatetimeIndex([EPOCH + pd.Timedelta(seconds=int(s)) + pd.Timedelta(int(ns), 'ns') for s, ns in zip(tab['t'], sub)])
        if tab.get('t_unit'):
            idx = idx.as_unit(tab['t_unit'])
    else:
        idx = pd.RangeIndex(n)
    return pd.DataFrame({'x': np.array([np.nan if v is None else float(v) for v in tab['x']], dtype='float64'),
                         'y': np.array(tab['y'], dtype=tab.get('y_dtype', 'int64')),
                         'g': (pd.Categorical(list(tab['g']), categories=['a', 'b', 'c', 'd', 'zy', 'zz', 'never'])
                               if tab.get('g_cat') else pd.array(list(tab['g']), dtype='str')),
                         'h': np.array(tab['h'], dtype='int64')}, index=idx)


# example rows are deliberately far away from any generated value: if an example
# ever leaks into a result, the comparison sees it
# (and every upstream filter the checks use lets at least two of them through)
_EX = {'x': [1024.5, -2048.25, 512.125, -4096.5], 'y': [101, -103, 107, -109], 'g': ['zz', 'zy', 'zz', 'zy'],
       'h': [55, 56, 55, 56], 't': [100000, 100001, 100003, 100003]}


def example_df(tab, ex):
    e = dict(_EX)
    if tab.get('t') is None:
        e['t'] = None
    if tab.get('g_cat'):
        e['g_cat'] = True
    if tab.get('t') is not None:
        if tab.get('t_unit'):
            e['t_unit'] = tab['t_unit']
        if tab.get('ex_time') == 'early':
            # example rows that look like a sample of earlier data (the usual way to make an example) instead of lying in
            # the far future of every generated row
            e['t'] = [s - 200000 for s in _EX['t']]
    df = table_df(e)
    return df if ex == 'rows' else df.iloc[:0]


def gen_sizes(rng, n, style=None, w=3, nanpos=(), max_batches=9):
    """A composition of n rows into consecutive batches, zeros allowed."""
    if style is None:
        style = rng.choice(['random', 'random', 'random', 'ones', 'eq', 'gt', 'lt', 'nanend', 'whole'])
    if style == 'whole':
        sizes = [n]
    elif style == 'ones':
        sizes = [1] * n
    elif style in ('eq', 'gt', 'lt'):
        sizes, left = [], n
        while left > 0:
            s = w if style == 'eq' else rng.randrange(w + 1, 2 * w + 2) if style == 'gt' else rng.randrange(1, max(2, w))
            s = min(s, left)
            sizes.append(s)
            left -= s
    else:
        cuts = set()
        if style == 'nanend':
            for p in nanpos:
                if p + 1 < n and rng.random() < 0.8:
                    cuts.add(p + 1)
        for _ in range(rng.randrange(0 if cuts else 1, 5)):
            if n > 1:
                cuts.add(rng.randrange(1, n))
        cs = [0] + sorted(cuts) + [n]
        sizes = [b - a for a, b in zip(cs, cs[1:])]
    while len(sizes) > max_batches:                      # merge from the right to bound the cost
        sizes[-2:] = [sizes[-2] + sizes[-1]]
    if style != 'whole':
        mode = rng.choice(['none', 'none', 'first', 'first', 'first', 'middle', 'last', 'first+middle', 'many', 'first2'])
        if mode in ('first', 'first+middle', 'many'):
            sizes.insert(0, 0)
        if mode == 'first2':
            sizes[0:0] = [0, 0]
        if mode in ('middle', 'first+middle', 'many') and len(sizes) >= 2:
            sizes.insert(rng.randrange(1, len(sizes)), 0)
        if mode == 'many' and len(sizes) >= 2:
            p = rng.randrange(1, len(sizes))
            sizes[p:p] = [0, 0]
        if mode in ('last', 'many'):
            sizes.append(0)
    return sizes


def split(df, sizes):
    out, a = [], 0
    for s in sizes:
        out.append(df.iloc[a:a + s])
        a += s
    assert a == len(df), (a, len(df))
    return out


def case_key(case):
    return hashlib.sha1(json.dumps(case, sort_keys=True, default=str).encode()).hexdigest()[:16]


# --------------------------------------------------------------------------
# shared vocabulary (the same code runs on pandas objects and on streaming ones)
# --------------------------------------------------------------------------

def _double(v):
    return v * 2


def _sq(v):
    return v * v


def _half(v):
    return v / 2


def _nanflag(v):
    # a labelling function: its value for a missing observation is not "missing" (unless the caller asks to skip those)
    return 1.0 if v != v else float(v) * 0.0 + 2.0


FUNCS = {'double': _double, 'sq': _sq, 'half': _half, 'nanflag': _nanflag}


def _mp_head1(d):
    return d.iloc[:1]


def _mp_dropna(d):
    return d.dropna()


def _mp_rev(d):
    return d.iloc[::-1]


def _mp_demean(s):
    return s - s.sum()


def _mp_addmul(a, b, k=1):
    return a + b * k


def _mp_where(a, b):
    return a.where(a > b, b)


MPF = {'head1': _mp_head1, 'dropna': _mp_dropna, 'rev': _mp_rev, 'demean': _mp_demean,
       'addmul': _mp_addmul, 'where': _mp_where}

BIN = {'+': operator.add, '-': operator.sub, '*': operator.mul, '/': operator.truediv, '//': operator.floordiv,
       '%': operator.mod, '**': operator.pow, '<<': operator.lshift, '>>': operator.rshift,
       '&': operator.and_, '|': operator.or_, '^': operator.xor}
BIN.update(CMP)
UN = {'neg': operator.neg, 'abs': abs, 'inv': operator.invert}


def _grouper_series(F, key):
    """streaming-series grouper; F is a pandas frame, a streaming DataFrame or a Window"""
    if key == 'y%2':
        return F.y % 2
    return getattr(F, key)


def _sel(F, sel):
    if sel is None:
        return F
    return F[sel]


def _wx(obj, op):
    """an element-wise step applied to the windowed / expanding object itself (or, for the oracle, to the pandas data it
    looks at) before the aggregation: (-w).sum(), (w + 10).mean(), (w * 2).var()"""
    e = op.get('wexpr')
    if e is None:
        return obj
    if e == 'neg':
        return -obj
    if e == 'add':
        return obj + 10
    if e == 'rsub':
        return 100 - obj
    return obj * 2


def _filter_series(s, cmpname=None, c=None):
    return s[CMP[cmpname](s, c)]


# --------------------------------------------------------------------------
# expression trees (C06, elementwise part)
# --------------------------------------------------------------------------

def ev(node, root, sz):
    """Evaluate an expression tree on ``root``.

    sz=True : root is a zero-argument callable returning a fresh streaming DataFrame on the source
    sz=False: root is a pandas DataFrame (one batch)
    """
    t = node[0]
    if t == 'root':
        return root() if sz else root
    if t == 'const':
        return node[1]
    if t == 'col':
        F = ev(node[1], root, sz)
        return getattr(F, node[2]) if len(node) > 3 and node[3] == 'attr' else F[node[2]]
    if t == 'bin':
        return BIN[node[1]](ev(node[2], root, sz), ev(node[3], root, sz))
    if t == 'un':
        return UN[node[1]](ev(node[2], root, sz))
    if t == 'map':
        if len(node) > 3 and node[3]:
            return ev(node[2], root, sz).map(FUNCS[node[1]], na_action=node[3])
        return ev(node[2], root, sz).map(FUNCS[node[1]])
    if t == 'round':
        return ev(node[1], root, sz).round(node[2])
    if t == 'astype':
        return ev(node[1], root, sz).astype(node[2])
    if t == 'mp':
        fn = MPF[node[1]]
        args = [ev(a, root, sz) for a in node[2]]
        kw = node[3] if len(node) > 3 else {}
        if sz:
            first = [a for a in args if hasattr(a, 'map_partitions')][0]
            return first.map_partitions(fn, *args, **kw)
        return fn(*args, **kw)
    if t == 'filter':
        F = ev(node[1], root, sz)
        return F[ev(node[2], root, sz)]
    if t == 'select':
        return ev(node[1], root, sz)[node[2]]
    if t == 'assign':
        F = ev(node[1], root, sz)
        return F.assign(**{k: ev(v, root, sz) for k, v in node[2]})
    if t == 'setitem':
        v = ev(node[3], root, sz)
        F = ev(node[1], root, sz)
        if not sz:
            F = F.copy()
        F[node[2]] = v
        return F
    if t == 'setitemf':
        v = ev(node[3], root, sz)
        F = ev(node[1], root, sz)
        if sz:
            F[node[2]] = v
            return F
        return F.assign(**{k: v[c] for k, c in zip(node[2], v.columns)})
    if t == 'query':
        return ev(node[1], root, sz).query(node[2])
    if t == 'reset_index':
        return ev(node[1], root, sz).reset_index()
    if t == 'tail':
        return ev(node[1], root, sz).tail(node[2])
    if t == 'to_frame':
        return ev(node[1], root, sz).to_frame()
    if t == 'index':
        return ev(node[1], root, sz).index
    if t == 'dict':
        vals = {k: ev(v, root, sz) for k, v in node[1]}
        return DataFrame(vals) if sz else pd.DataFrame(vals)
    raise ValueError('unknown node %r' % (t,))


# --------------------------------------------------------------------------
# building the real pipeline
# --------------------------------------------------------------------------

def _skw(start):
    return {} if start is NO else {'start': start}


def _agg_obj(op):
    a = op['agg']
    if a in ('var', 'std'):
        return AG.Var(ddof=op.get('ddof', 1))
    return {'sum': AG.Sum, 'count': AG.Count, 'mean': AG.Mean, 'size': AG.Size, 'value_counts': AG.ValueCounts}[a]()


def _b_red(op, root, start, ws):
    t = _sel(root, op.get('sel'))
    a = op['agg']
    if a in ('sum', 'count', 'mean'):
        return getattr(t, a)(**_skw(start))
    if a == 'size':
        return t.size
    if a == 'value_counts':
        return t.value_counts()
    r = t.aggregate(_agg_obj(op), **_skw(start))
    return r ** 0.5 if a == 'std' else r


def _b_red_raw(op, root):
    """state exposure for plain reductions (DESIGN C12): the same binary operator given to Stream.accumulate"""
    t = _sel(root, op.get('sel'))
    return t.stream.accumulate(AG.accumulator, agg=_agg_obj(op), start=None, returns_state=True, with_state=True)


def _call_gb(grp, op, start, ws):
    a = op['agg']
    if a in ('var', 'std'):
        return getattr(grp, a)(ddof=op.get('ddof', 1))
    if a == 'size':
        return grp.size()
    if a == 'mean':
        kw = _skw(start)
        if ws:
            kw['with_state'] = True
        return grp.mean(**kw)
    return getattr(grp, a)(**_skw(start))


def _b_gb(op, root, start, ws):
    kind, key = op['by']
    base = root
    if op.get('rootsel') is not None:
        root = root[op['rootsel']]
    grp = root.groupby(key if kind == 'col' else _grouper_series(base, key))
    if op.get('sel') is not None:
        grp = grp[op['sel']]
    return _call_gb(grp, op, start, ws)


def _window(op, F, start, ws):
    kind, v = op['win']
    kw = _skw(start)
    if ws:
        kw['with_state'] = True
    if kind == 'n':
        return F.window(n=v, **kw)
    return F.window(value='%ds' % v, **kw)


def _call_win(w, op):
    a = op['agg']
    if a in ('var', 'std'):
        return getattr(w, a)(ddof=op.get('ddof', 1))
    if a == 'size':
        return w.size
    return getattr(w, a)()


def _b_win(op, root, start, ws):
    if op.get('selpos') == 'before':
        w = _window(op, _sel(root, op.get('sel')), start, ws)
    elif op.get('ridx'):
        # window(...).reset_index()[sel]: the old index becomes a column, the window over the rows is the same
        w = _sel(_window(op, root, start, ws).reset_index(), op.get('sel'))
    else:
        w = _sel(_window(op, root, start, ws), op.get('sel'))
    return _call_win(_wx(w, op), op)


def _b_wgb(op, root, start, ws):
    kind, key = op['by']
    w = _window(op, root, start, ws)
    if kind == 'col':
        grp = w.groupby(key)
    elif kind == 'wser':                     # grouper taken from the Window object
        grp = w.groupby(_grouper_series(w, key))
    else:                                    # 'ser': grouper is a plain streaming series
        grp = w.groupby(_grouper_series(root, key))
    if op.get('sel') is not None:
        grp = grp[op['sel']]
    a = op['agg']
    if a in ('var', 'std'):
        return getattr(grp, a)(ddof=op.get('ddof', 1))
    return getattr(grp, a)()


def _b_roll(op, root, start, ws):
    kind, v = op['win']
    kw = _skw(start)
    if ws:
        kw['with_state'] = True
    if op.get('minp') is not None:
        # accepted by Frame.rolling(); the streaming implementation does not hand it to pandas, so the results are
        # those of the default -- but it must not influence how much state is carried or resumed either
        kw['min_periods'] = op['minp']
    w = v if kind == 'n' else '%ds' % v
    if kind == 'n' and op.get('win_np'):
        w = np.int64(v)             # a row count that comes out of an array computation
    if op.get('selpos') == 'before':
        r = _sel(root, op.get('sel')).rolling(w, **kw)
    else:
        r = _sel(root.rolling(w, **kw), op.get('sel'))
    return getattr(r, op['agg'])(*op.get('args', []))


def _b_cum(op, root, start, ws):
    return getattr(_sel(root, op.get('sel')), op['agg'])()


def _b_exp(op, root, start, ws):
    kw = _skw(start)
    if ws:
        kw['with_state'] = True
    if op.get('selpos') == 'before':
        e = _sel(root, op.get('sel')).expanding(**kw)
    else:
        e = _sel(root.expanding(**kw), op.get('sel'))
    return _call_win(_wx(e, op), op)


def _b_ewm(op, root, start, ws):
    kw = _skw(start)
    if ws:
        kw['with_state'] = True
    kw.update(op['par'])
    if op.get('selpos') == 'before':
        e = _sel(root, op.get('sel')).ewm(**kw)
    else:
        e = _sel(root.ewm(**kw), op.get('sel'))
    return e.mean()


_BUILD = {'red': _b_red, 'gb': _b_gb, 'win': _b_win, 'wgb': _b_wgb, 'roll': _b_roll, 'cum': _b_cum,
          'exp': _b_exp, 'ewm': _b_ewm}


def build(op, example, start=NO, with_state=False, raw=False):
    """-> (source stream, output stream).  op fields:
    fam   red|gb|win|wgb|roll|cum|exp|ewm|expr
    src   'df' (streaming DataFrame fed the batch) | 'series' (streaming Series fed batch.x)
    pre   None | [col, cmp, const]  upstream filter (may empty a batch)
    sel   None | column | [columns];  selpos 'before'|'after' the window()/rolling()/... call
    agg, ddof, args, par, by=[col|ser|wser, key], rootsel, win=[n|t, size], tree (expr)
    """
    src = Stream()
    if op.get('src') == 'series':
        root = Series(src, example=example['x'])
        if op.get('pre'):
            root = root.map_partitions(_filter_series, root, cmpname=op['pre'][1], c=op['pre'][2])
    else:
        root = DataFrame(src, example=example)
        if op.get('pre'):
            col, cmpn, c = op['pre']
            root = root[CMP[cmpn](root[col], c)]
    if op['fam'] == 'expr':
        base_stream, base_example = root.stream, root.example
        out = ev(op['tree'], lambda: DataFrame(base_stream, example=base_example), True)
    elif raw:
        return src, _b_red_raw(op, root)
    else:
        out = _BUILD[op['fam']](op, root, start, with_state)
    return src, (out if isinstance(out, Stream) else out.stream)


class Trace(object):
    __slots__ = ('outs', 'errs', 'build_error', 'raw', 'mutated')

    def __init__(self):
        self.outs, self.errs, self.build_error = [], [], None
        self.raw = []       # the very objects that were emitted (not copies), per batch
        self.mutated = []   # (batch number, description): the batch object handed to emit() came back altered


def _same_data(a, b):
    if type(a) is not type(b) or a.shape != b.shape:
        return False
    if isinstance(a, pd.DataFrame) and (list(a.columns) != list(b.columns) or list(a.dtypes) != list(b.dtypes)):
        return False
    return bool(a.equals(b)) and a.index.equals(b.index)


def feed_of(op, batch):
    return batch['x'] if op.get('src') == 'series' else batch


def run_pipeline(op, example, batches, start=NO, with_state=False, raw=False, snapshot=False):
    """Run the real pipeline; outs[k] = list of elements emitted while batch k was pushed,
    errs[k] = the exception emit() raised for batch k (or None)."""
    tr = Trace()
    lg = logging.getLogger('streamz')
    old_level = lg.level
    lg.setLevel(logging.CRITICAL + 10)         # streamz.core logs every exception an accumulate function raises
    sink = None
    try:
        with warnings.catch_warnings(), np.errstate(all='ignore'):
            warnings.simplefilter('ignore')
            try:
                src, out = build(op, example, start, with_state, raw)
            except Exception as e:                     # noqa: BLE001 -- the monitor records it
                tr.build_error = e
                return tr
            L, RAW = [], []

            def keep(v):
                RAW.append(v)
                L.append(copy.deepcopy(v) if snapshot else v)
            sink = out.sink(keep)
            for kb, b in enumerate(batches):
                n0 = len(L)
                feed = feed_of(op, b)
                pristine = feed.copy(deep=True)
                try:
                    src.emit(feed)
                    tr.errs.append(None)
                except Exception as e:                 # noqa: BLE001
                    tr.errs.append(e)
                if not _same_data(feed, pristine):
                    # the caller's batch (which any other consumer of the same source receives as well) was written to
                    tr.mutated.append((kb + 1, 'columns %s -> %s' % (list(getattr(pristine, 'columns', [])), list(getattr(feed, 'columns', [])))))
                tr.outs.append(L[n0:])
                tr.raw.append(RAW[n0:])
    finally:
        lg.setLevel(old_level)
        if sink is not None:
            try:
                sink.destroy()                         # sinks are pinned in a global set
            except Exception:                          # noqa: BLE001
                pass
    return tr


# --------------------------------------------------------------------------
# pandas side
# --------------------------------------------------------------------------

def p_root(op, df):
    """what the aggregation stage receives for the frame df (upstream filter applied)"""
    if op.get('src') == 'series':
        s = df['x']
        if op.get('pre'):
            s = _filter_series(s, op['pre'][1], op['pre'][2])
        return s
    if op.get('pre'):
        col, cmpn, c = op['pre']
        df = df[CMP[cmpn](df[col], c)]
    return df


def p_target(op, root):
    """the data columns the aggregation looks at (used for input classes)"""
    r = root
    if op.get('rootsel') is not None:
        r = r[op['rootsel']]
    if op.get('sel') is not None:
        r = r[op['sel']]
    if isinstance(r, pd.DataFrame) and op['fam'] in ('gb', 'wgb') and op['by'][0] == 'col':
        ks = op['by'][1] if isinstance(op['by'][1], list) else [op['by'][1]]
        r = r[[c for c in r.columns if c not in ks]]
    return r


def p_reduce(obj, op):
    a = op['agg']
    if a in ('var', 'std'):
        return getattr(obj, a)(ddof=op.get('ddof', 1))
    if a == 'size':
        return obj.size
    return getattr(obj, a)()


def p_groupby(root, op):
    kind, key = op['by']
    r = root if op.get('rootsel') is None else root[op['rootsel']]
    g = r.groupby(key if kind == 'col' else _grouper_series(root, key))
    if op.get('sel') is not None:
        g = g[op['sel']]
    a = op['agg']
    if a in ('var', 'std'):
        return getattr(g, a)(ddof=op.get('ddof', 1))
    return getattr(g, a)()


def p_window(prefix, op):
    """the rows inside the window after everything in prefix has been seen"""
    kind, v = op['win']
    if kind == 'n':
        return prefix.iloc[-v:]
    newest = prefix.index.max()
    return prefix[prefix.index > newest - pd.Timedelta(seconds=v)]


def p_onepass(root, op):
    """rolling / cumulative / expanding / ewm in one pass over all rows"""
    fam = op['fam']
    t = _sel(root, op.get('sel'))
    if fam == 'roll':
        kind, v = op['win']
        return getattr(t.rolling(v if kind == 'n' else '%ds' % v), op['agg'])(*op.get('args', []))
    if fam == 'cum':
        return getattr(t, op['agg'])()
    if fam == 'exp':
        if op['agg'] == 'sum0':
            return _wx(t, op).expanding(min_periods=0).sum()
        e = _wx(t, op).expanding(min_periods=1)
        if op['agg'] in ('var', 'std'):
            return getattr(e, op['agg'])(ddof=op.get('ddof', 1))
        return getattr(e, op['agg'])()
    if fam == 'ewm':
        return t.ewm(**op['par']).mean()
    raise ValueError(fam)


# --------------------------------------------------------------------------
# comparison
# --------------------------------------------------------------------------

def set_tolerance(tab):
    xs = [v for v in tab['x'] if v is not None and v not in (float('inf'), float('-inf'))]
    ill = len(xs) > 1 and len(set(xs)) == 1 and xs[0] not in (0.0,) and float(xs[0]) * 4 != int(float(xs[0]) * 4)
    TOL['atol'] = 1e-5 if ill else ATOL
    return ill


def _is_scalar(v):
    return isinstance(v, (int, float, bool, np.generic)) or v is None or v is pd.NaT


def _vals_equal(a, b):
    """1-d or 2-d arrays of values; -> None or description"""
    a, b = np.asarray(a), np.asarray(b)
    if a.shape != b.shape:
        return 'shapes %s vs %s' % (a.shape, b.shape)
    if a.size == 0:
        return None
    try:
        fa, fb = a.astype('float64'), b.astype('float64')
    except (TypeError, ValueError):
        fa = fb = None
    if fa is not None:
        ok = np.isclose(fa, fb, rtol=RTOL, atol=TOL['atol'], equal_nan=True)
        return None if ok.all() else 'values differ'
    for u, v in zip(a.ravel().tolist(), b.ravel().tolist()):
        if not _label_eq(u, v):
            return 'values differ (%r vs %r)' % (u, v)
    return None


def _label_eq(u, v):
    if isinstance(u, tuple) and isinstance(v, tuple):
        return len(u) == len(v) and all(_label_eq(p, q) for p, q in zip(u, v))
    try:
        un, vn = pd.isna(u), pd.isna(v)
        if un is True or vn is True or un is np.True_ or vn is np.True_:
            return bool(un) and bool(vn)
    except (TypeError, ValueError):
        pass
    if isinstance(u, (int, float, np.number)) and isinstance(v, (int, float, np.number)) \
            and not isinstance(u, bool) and not isinstance(v, bool):
        return bool(np.isclose(float(u), float(v), rtol=RTOL, atol=TOL['atol']))
    try:
        return bool(u == v)
    except Exception:                                  # noqa: BLE001
        return False


def _labels(idx):
    return list(idx.tolist())


def _sort(obj):
    try:
        return obj.sort_index(kind='stable')
    except TypeError:
        order = sorted(range(len(obj)), key=lambda i: repr(obj.index[i]))
        return obj.iloc[order]


def _kind(v):
    if isinstance(v, pd.DataFrame):
        return 'frame'
    if isinstance(v, pd.Series):
        return 'series'
    if isinstance(v, pd.Index):
        return 'index'
    if _is_scalar(v):
        return 'scalar'
    return type(v).__name__


def compare(got, exp, ordered=False, drop_zero=False):
    """-> None when equal under the E6 rules, else (clause, detail) with clause one of
    shape-mismatch | index-mismatch | stale-key | missing-key | value-mismatch"""
    kg, ke = _kind(got), _kind(exp)
    if kg != ke:
        return 'shape-mismatch', 'emitted a %s, pandas gives a %s' % (kg, ke)
    if kg == 'scalar':
        d = _vals_equal([got if got is not None else np.nan], [exp if exp is not None else np.nan])
        return ('value-mismatch', d) if d else None
    if kg == 'index':
        if len(got) != len(exp) or not all(_label_eq(u, v) for u, v in zip(_labels(got), _labels(exp))):
            return 'index-mismatch', 'index values differ'
        return None
    if kg not in ('series', 'frame'):
        return ('value-mismatch', 'objects differ') if not _label_eq(got, exp) else None
    if drop_zero:
        got, exp = got[got != 0], exp[exp != 0]
    if kg == 'frame':
        cg, ce = sorted(map(str, got.columns)), sorted(map(str, exp.columns))
        if cg != ce:
            return 'shape-mismatch', 'columns %s vs %s' % (cg, ce)
        got = got[sorted(got.columns, key=str)]
        exp = exp[sorted(exp.columns, key=str)]
    if not ordered:
        got, exp = _sort(got), _sort(exp)
    lg, le = _labels(got.index), _labels(exp.index)
    if len(lg) != len(le) or not all(_label_eq(u, v) for u, v in zip(lg, le)):
        if not ordered:
            extra = [u for u in lg if not any(_label_eq(u, v) for v in le)]
            missing = [v for v in le if not any(_label_eq(u, v) for u in lg)]
            if extra:
                return 'stale-key', 'labels %r are in the emitted result but not in pandas' % (extra[:5],)
            if missing:
                return 'missing-key', 'labels %r are in pandas but not in the emitted result' % (missing[:5],)
        return 'index-mismatch', '%d labels %r vs %d labels %r' % (len(lg), lg[:6], len(le), le[:6])
    if kg == 'frame':
        for c in got.columns:
            d = _vals_equal(got[c].to_numpy(), exp[c].to_numpy())
            if d:
                return 'value-mismatch', 'column %r: %s' % (c, d)
        return None
    d = _vals_equal(got.to_numpy(), exp.to_numpy())
    return ('value-mismatch', d) if d else None


def last_row_values(v):
    """ewm emits a one-row frame / one-element series carrying the label of the first row ever seen;
    only its values are compared (as a scalar or a column-labelled series)"""
    if isinstance(v, pd.DataFrame):
        return v.iloc[-1] if len(v) else None
    if isinstance(v, pd.Series):
        return v.iloc[-1] if len(v) else None
    return v


# --------------------------------------------------------------------------
# input classes, labels, rendering
# --------------------------------------------------------------------------

def has_nan(obj):
    if isinstance(obj, pd.DataFrame):
        return bool(obj.select_dtypes('number').isna().to_numpy().any()) if len(obj) else False
    if isinstance(obj, pd.Series):
        return bool(obj.isna().to_numpy().any()) if len(obj) else False
    return False


def input_class(targets, batch_end=False):
    """targets: per batch, the data the aggregation sees.  Features: nan, nan-at-batch-end
    (a non-final non-empty batch whose last row holds a NaN; only when asked), empty-first-batch."""
    feats = []
    if any(has_nan(t) for t in targets):
        feats.append('nan')
        if batch_end:
            ne = [t for t in targets if len(t)]
            if any(has_nan(t.iloc[-1:]) for t in ne[:-1]):
                feats[-1] = 'nan-at-batch-end'
    if targets and len(targets[0]) == 0:
        feats.append('empty-first-batch')
    return '+'.join(feats) or 'plain'


def shape_of(target):
    return 'frame' if isinstance(target, pd.DataFrame) else 'series'


def op_label(op, target=None):
    fam = op['fam']
    sh = '[%s]' % shape_of(target) if target is not None else ''
    w = ''
    if op.get('win'):
        w = {'win': 'window', 'wgb': 'window', 'roll': 'rolling'}[fam] + '-' + op['win'][0] + '.'
    if fam in ('gb', 'wgb'):
        by = op['by'][0]
        return '%sgroupby-%s.%s%s' % (w, 'col' if by == 'col' else 'ser', op['agg'], sh)
    if fam in ('win', 'roll'):
        return '%s%s%s%s' % (w, 'reset_index.' if op.get('ridx') else '', op['agg'], sh)
    if fam == 'exp':
        return 'expanding.%s%s' % (op['agg'], sh)
    if fam == 'ewm':
        return 'ewm.mean%s' % sh
    if fam == 'expr':
        return 'expr'
    return '%s%s' % (op['agg'], sh)


def show(v, limit=400):
    """compact one-line rendering of an emitted / expected value"""
    if isinstance(v, pd.DataFrame):
        s = '{%s}' % ', '.join('%s: %s' % (c, _lst(v[c])) for c in v.columns) + ' idx=%s' % _idx(v.index)
    elif isinstance(v, pd.Series):
        s = '%s idx=%s' % (_lst(v), _idx(v.index))
    elif isinstance(v, BaseException):
        s = 'raised %r' % (v,)
    else:
        s = repr(v if not isinstance(v, np.generic) else v.item())
    return s if len(s) <= limit else s[:limit] + '...'


def _lst(s):
    return '[%s]' % ', '.join('nan' if (isinstance(u, float) and u != u) else repr(u) for u in s.tolist())


def _idx(ix):
    if isinstance(ix, pd.DatetimeIndex):
        return '[%s]s' % ', '.join(str(int((u - EPOCH).total_seconds())) for u in ix)
    return str(ix.tolist())


def show_batches(targets):
    return ' | '.join(show(t, 200) for t in targets)


# --------------------------------------------------------------------------
# bookkeeping shared by the four checks
# --------------------------------------------------------------------------

class Ctx(object):
    """per-shard accumulator: counters, sets, violations (smallest witnesses first)"""

    def __init__(self, pid):
        self.pid = pid
        self.counters, self.sets = {}, {}
        self.viol = {}            # key -> list of (size, violation)
        self.case_seen = set()

    def count(self, name, n=1):
        self.counters[name] = self.counters.get(name, 0) + n

    def note(self, setname, value):
        self.sets.setdefault(setname, set()).add(value)

    def begin_case(self):
        self.case_seen = set()

    def violate(self, mech, what, case):
        key = '%s:%s' % (self.pid, mech)
        if key in self.case_seen:
            return
        self.case_seen.add(key)
        self.count('mismatch@' + mech)
        size = (sum(case['sizes']), len(case['sizes']), len(json.dumps(case.get('op', case.get('agg')))))
        lst = self.viol.setdefault(key, [])
        lst.append((size, {'key': key, 'what': what, 'case': case}))
        lst.sort(key=lambda p: p[0])
        del lst[4:]

    def violations(self):
        out = []
        for key in sorted(self.viol):
            out.extend(v for _, v in self.viol[key])
        return out

    def result(self, evaluations, keys, samples, inconclusive=()):
        return {'evaluations': evaluations, 'keys': keys, 'violations': self.violations(), 'samples': samples,
                'counters': self.counters, 'sets': {k: sorted(v, key=str) for k, v in self.sets.items()},
                'inconclusive': list(inconclusive)}


def split_features(sizes, eff_lens, w=None):
    """descriptive features of a split, for the evidence 'sets'"""
    f = set()
    if len(sizes) == 1:
        f.add('unsplit')
    if sizes and sizes[0] == 0:
        f.add('empty-first')
    if sizes and sizes[-1] == 0 and len(sizes) > 1:
        f.add('empty-last')
    if any(s == 0 for s in sizes[1:-1]):
        f.add('empty-middle')
    if any(s > 0 and e == 0 for s, e in zip(sizes, eff_lens)):
        f.add('batch-emptied-by-filter')
    if w is not None:
        for e in eff_lens:
            if e > 0:
                f.add('batch<window' if e < w else 'batch=window' if e == w else 'batch>window')
    return f


# --------------------------------------------------------------------------
# the prefix / window oracle shared by C06 and C07
# --------------------------------------------------------------------------

def run_with_example_fallback(case, ctx, **kw):
    """Build with the example named by the case; a collection that cannot even be built on an EMPTY
    example (the example result is computed eagerly) is recorded and rebuilt on a non-empty example."""
    op, tab = case['op'], case['tab']
    df = table_df(tab)
    batches = split(df, case['sizes'])
    set_tolerance(tab)
    tr = run_pipeline(op, example_df(tab, case.get('ex', 'rows')), batches, **kw)
    if tr.build_error is not None and case.get('ex') == 'empty':
        ctx.count('build_exception_on_empty_example')
        ctx.note('build_exceptions_on_empty_example', '%s: %s' % (op_label(op), type(tr.build_error).__name__))
        if op.get('fam') in ('red', 'gb', 'win', 'wgb', 'exp', 'roll', 'cum', 'ewm'):
            # pandas computes every one of these aggregations on an empty frame; so must the collection that is built on
            # an empty example (it evaluates the aggregation on the example eagerly)
            ctx.violate('build-exception-on-empty-example@%s' % op_label(op),
                        '%s cannot be built on an empty example: %r' % (op_label(op), tr.build_error), case)
        tr = run_pipeline(op, example_df(tab, 'rows'), batches, **kw)
    ctx.count('input_batches_checked_for_modification', len(batches))
    if tr.mutated:
        ctx.violate('input-batch-modified@%s' % op_label(op), '%s wrote into the batch object that was handed to emit() (batch %d: %s); '
                    'every other consumer of the same source sees the altered data' % (op_label(op), tr.mutated[0][0], tr.mutated[0][1]), case)
    return df, batches, tr


def _expr_top(tree):
    return tree[0] + (tree[1] if tree[0] in ('bin', 'un', 'mp', 'map') else '')


def check_prefix(case, ctx):
    """C06 / C07 oracle for one case.  Returns the number of NON-EMPTY batches after which a
    comparison with pandas was made (the case is non-trivial when that is >= 2)."""
    ctx.begin_case()
    op = case['op']
    fam = op['fam']
    df, batches, tr = run_with_example_fallback(case, ctx)
    if fam == 'expr':
        return _check_expr(case, ctx, batches, tr)
    eff = [p_root(op, b) for b in batches]
    lens = [len(e) for e in eff]
    targets = [p_target(op, e) for e in eff]
    cls = input_class(targets)
    label = op_label(op, targets[0])
    ctx.note('aggregations', label)
    ctx.note('input_classes', cls)
    ctx.note('sources', op.get('src', 'df') + ('+filter' if op.get('pre') else ''))
    for f in split_features(case['sizes'], lens, op['win'][1] if op.get('win') and op['win'][0] == 'n' else None):
        ctx.note('split_features', f)
    if tr.build_error is not None:
        ctx.count('build_exception')
        ctx.violate('build-exception@%s:%s' % (label, cls),
                    '%s cannot be built even on a non-empty example: %r' % (label, tr.build_error), case)
        return 0
    root_full = p_root(op, df)
    seq = []
    for k in range(len(batches)):
        outs, err = tr.outs[k], tr.errs[k]
        seq.append(show(err, 80) if err is not None else show(outs[0], 120) if len(outs) == 1 else '<%d values>' % len(outs))
    compared, cum = 0, 0
    prev_keys, ever_keys = set(), set()
    drop_zero = op['agg'] == 'value_counts'
    for k in range(len(batches)):
        cum += lens[k]
        outs, err = tr.outs[k], tr.errs[k]
        if cum == 0:
            ctx.count('empty_prefix_not_compared')
            if err is not None:
                ctx.count('exception_on_empty_prefix')
                ctx.note('exceptions_on_empty_prefix', '%s: %s' % (label, type(err).__name__))
                ctx.violate('exception-before-any-row@%s' % label, '%s, example %s -> batch %d (nothing but empty batches so far) raised %r; '
                            'pandas computes this aggregation on an empty frame' % (label, case.get('ex'), k + 1, err), case)
            continue
        prefix = root_full.iloc[:cum]
        scope = 'the first %d batches' % (k + 1)
        if op.get('win'):
            prefix = p_window(prefix, op)
            scope = 'the window (%s=%s) after batch %d: rows %s' % (op['win'][0], op['win'][1], k + 1, _idx(prefix.index))
        if fam in ('gb', 'wgb'):
            exp = p_groupby(prefix, op)
        else:
            exp = p_reduce(_wx(p_target(op, prefix), op), op)
        ctx.count('cmp_total')
        ctx.count('cmp_' + {'red': 'reduction', 'exp': 'reduction', 'gb': 'groupby', 'win': 'window', 'wgb': 'window_groupby'}[fam]
                  + ('_' + ('col' if op['by'][0] == 'col' else 'ser') if fam in ('gb', 'wgb') else '')
                  + ('_' + op['win'][0] if op.get('win') else ''))
        ctx.count('cmp_on_' + shape_of(targets[0]))
        ctx.count('cmp_agg_' + op['agg'])
        if 'nan' in cls:
            ctx.count('cmp_with_nan')
        if 'empty-first-batch' in cls:
            ctx.count('cmp_after_empty_first_batch')
        if lens[k] == 0:
            ctx.count('cmp_after_empty_batch')
        if fam == 'wgb':
            ctx.count('window_group_keys_checked', len(exp))
            cur = set(_labels(exp.index))
            ctx.count('window_group_key_left', len(prev_keys - cur))
            ctx.count('window_group_key_reentered', len((cur - prev_keys) & (ever_keys - prev_keys)))
            ever_keys |= cur
            prev_keys = cur
        if lens[k] > 0:
            compared += 1
        head = '%s, input class %s, example %s%s: batches %s' % (
            label, cls, case.get('ex'), ', upstream filter %s' % (op['pre'],) if op.get('pre') else '',
            show_batches(targets))
        if err is not None:
            ctx.violate('exception@%s:%s' % (label, cls),
                        '%s -> batch %d raised %r although %s hold rows; emitted sequence %s'
                        % (head, k + 1, err, scope, seq), case)
            continue
        if len(outs) != 1:
            ctx.violate('%s@%s:%s' % ('no-value' if not outs else 'several-values', label, cls),
                        '%s -> batch %d produced %d values' % (head, k + 1, len(outs)), case)
            continue
        d = compare(outs[0], exp, drop_zero=drop_zero)
        if d is not None:
            ctx.violate('%s@%s:%s' % (d[0], label, cls),
                        '%s -> after batch %d emitted %s but pandas on %s gives %s (%s); emitted sequence %s'
                        % (head, k + 1, show(outs[0]), scope, show(exp), d[1], seq), case)
    return compared


NODE_TYPES = {'root', 'const', 'col', 'bin', 'un', 'map', 'round', 'astype', 'mp', 'filter', 'select', 'assign', 'setitem',
              'setitemf', 'query', 'reset_index', 'tail', 'to_frame', 'index', 'dict'}


def subtrees(tree):
    """post-order: every operand sub-expression before the expression itself"""
    if isinstance(tree, list):
        is_node = bool(tree) and isinstance(tree[0], str) and tree[0] in NODE_TYPES
        for c in (tree[1:] if is_node else tree):
            for t in subtrees(c):
                yield t
        if is_node:
            yield tree


def _expr_failures(op, tab, batches, tr):
    """-> (failures [(clause, text)], compared non-empty batches, stats dict) for one expression pipeline run"""
    fails, compared, st = [], 0, {'cmp': 0, 'empty': 0, 'both_raised': 0}
    if tr.build_error is not None:
        try:
            with warnings.catch_warnings(), np.errstate(all='ignore'):
                warnings.simplefilter('ignore')
                ev(op['tree'], p_root(op, example_df(tab, 'rows')), False)
            perr = None
        except Exception as e:                         # noqa: BLE001
            perr = e
        if perr is None:
            fails.append(('build-exception', 'building %s raised %r; pandas evaluates it on the example'
                          % (json.dumps(op['tree']), tr.build_error)))
        else:
            st['rejected_by_pandas_too'] = 1
        return fails, 0, st
    for k, b in enumerate(batches):
        pb = p_root(op, b)
        try:
            with warnings.catch_warnings(), np.errstate(all='ignore'):
                warnings.simplefilter('ignore')
                exp, perr = ev(op['tree'], pb, False), None
        except Exception as e:                         # noqa: BLE001
            exp, perr = None, e
        outs, err = tr.outs[k], tr.errs[k]
        st['cmp'] += 1
        if len(pb) == 0:
            st['empty'] += 1
        head = 'expression %s%s on batch %d = %s' % (json.dumps(op['tree']), ' after filter %s' % (op['pre'],) if op.get('pre') else '',
                                                     k + 1, show(pb))
        if perr is not None and err is not None:
            st['both_raised'] += 1
            # the batch is outside the domain of the expression (pandas rejects it too).  What a pipeline does after
            # one of its operand branches has raised (the zip behind a binary operation has already buffered the
            # other operand) is C16's subject, not C06's: later batches of this run are not compared.
            break
        elif err is not None:
            fails.append(('exception', '%s: streamz raised %r, pandas gives %s' % (head, err, show(exp))))
        elif perr is not None:
            fails.append(('no-exception', '%s: pandas raises %r, streamz emitted %s' % (head, perr, [show(o) for o in outs])))
        elif len(outs) != 1:
            fails.append(('no-value' if not outs else 'several-values', '%s: %d values emitted' % (head, len(outs))))
        else:
            if len(pb):
                compared += 1
            d = compare(outs[0], exp, ordered=True)
            if d is not None:
                fails.append((d[0], '%s: emitted %s, pandas gives %s (%s)' % (head, show(outs[0]), show(exp), d[1])))
    return fails, compared, st


def _check_expr(case, ctx, batches, tr):
    """per-batch oracle for expression trees; a failure is attributed to the SMALLEST failing sub-expression
    (each sub-expression is run as its own real pipeline), so the key names the operation, not the enclosing tree"""
    op = case['op']
    ctx.note('aggregations', 'expr.' + _expr_top(op['tree']))
    for t in subtrees(op['tree']):
        if t[0] != 'const':
            ctx.note('expr_nodes', _expr_top(t))
    fails, compared, st = _expr_failures(op, case['tab'], batches, tr)
    ctx.count('cmp_total', st['cmp'])
    ctx.count('cmp_elementwise', st['cmp'])
    ctx.count('cmp_elementwise_empty_batch', st['empty'])
    ctx.count('expr_both_raised', st['both_raised'])
    ctx.count('expr_rejected_by_pandas_too', st.get('rejected_by_pandas_too', 0))
    if not fails:
        return compared
    where, wfails = op['tree'], fails
    for sub in subtrees(op['tree']):
        if sub[0] in ('root', 'const') or sub is op['tree']:
            continue
        sop = dict(op, tree=sub)
        str_ = run_pipeline(sop, example_df(case['tab'], case.get('ex', 'rows')), batches)
        if str_.build_error is not None and case.get('ex') == 'empty':
            str_ = run_pipeline(sop, example_df(case['tab'], 'rows'), batches)
        sf, _, _ = _expr_failures(sop, case['tab'], batches, str_)
        if sf:
            where, wfails = sub, sf
            break
    seen = set()
    for clause, text in wfails:
        if clause not in seen:
            seen.add(clause)
            ctx.violate('%s@expr.%s' % (clause, _expr_top(where)),
                        text + ('' if where is op['tree'] else ' [smallest failing sub-expression of %s]' % json.dumps(op['tree'])), case)
    return compared


def drive(pid, seed, tier, shard, nshards, gen_cases, check, nontrivial_min=2, sample_fn=None):
    """Common shard loop: gen_cases(rng) yields cases, check(case, ctx) -> number of compared non-empty batches."""
    import random
    rng = random.Random('%s-%d-%d-%s' % (pid, seed, shard, tier))
    ctx = Ctx(pid)
    keys, samples, n = [], [], 0
    for case in gen_cases(rng):
        n += 1
        compared = check(case, ctx)
        if compared >= nontrivial_min:
            keys.append(case_key(case))
            if len(samples) < 2 and not ctx.case_seen and sample_fn is not None:     # a case that held
                samples.append(sample_fn(case, compared))
    return ctx.result(n, keys, samples)


# --------------------------------------------------------------------------
# frames whose column labels are integers (0, 1, 2): label 0 is falsy
# --------------------------------------------------------------------------

def gen_intlabel_case(rng, windowed):
    n = rng.randrange(3, 11)
    rows = [[rng.randrange(-8, 9) / 4.0, rng.randrange(0, 3), rng.randrange(0, 5)] for _ in range(n)]
    sizes = gen_sizes(rng, n, style=rng.choice(['random', 'ones', 'whole', 'random']), max_batches=6)
    return {'intlabel': True, 'rows': rows, 'sizes': sizes, 'sel': rng.choice([0, 0, 2, [0, 2]]), 'by': rng.choice([1, 1, 2]),
            'agg': rng.choice(['sum', 'count', 'mean', 'size', 'var']), 'win': rng.choice([2, 3, 4]) if windowed else None,
            'ex': rng.choice(['empty', 'rows'])}


def check_intlabel(case, ctx):
    """groupby (plain or over a window of n rows) on a frame built from a bare array: columns 0, 1, 2"""
    from streamz import Stream
    from streamz.dataframe import DataFrame
    ctx.begin_case()
    df = pd.DataFrame(np.array(case['rows'], dtype='float64'))
    df[1] = df[1].astype('int64')
    df[2] = df[2].astype('int64')
    if case['by'] == case['sel'] or (isinstance(case['sel'], list) and case['by'] in case['sel']):
        case = dict(case, by=1, sel=0)
    batches = split(df, case['sizes'])
    label = 'intlabel-%sgroupby[%s].%s' % ('window-n.' if case['win'] else '', 'series' if not isinstance(case['sel'], list) else 'frame', case['agg'])
    ctx.note('aggregations', label)
    example = pd.DataFrame(np.array([[1024.5, 7, 9], [-2048.25, 8, 9]]))
    example[1] = example[1].astype('int64')
    example[2] = example[2].astype('int64')
    got = []
    try:
        src = Stream()
        sdf = DataFrame(src, example=example if case['ex'] == 'rows' else example.iloc[:0])
        g = (sdf.window(n=case['win']) if case['win'] else sdf).groupby(case['by'])[case['sel']]
        r = g.size() if case['agg'] == 'size' else getattr(g, case['agg'])()
        sk = r.stream.sink(got.append)
    except Exception as e:                                 # noqa: BLE001
        ctx.violate('build-exception@%s' % label, '%s cannot be built: %r' % (label, e), case)
        return 0
    compared, cum = 0, 0
    try:
        for k, b in enumerate(batches):
            n0 = len(got)
            try:
                src.emit(b)
            except Exception as e:                         # noqa: BLE001
                cum += len(b)
                if cum:
                    ctx.violate('exception@%s' % label, '%s: batch %d raised %r' % (label, k + 1, e), case)
                    return compared
                continue
            cum += len(b)
            if cum == 0 or len(got) == n0:
                continue
            prefix = df.iloc[:cum]
            if case['win']:
                prefix = prefix.iloc[-case['win']:]
            pg = prefix.groupby(case['by'])[case['sel']]
            exp = pg.size() if case['agg'] == 'size' else getattr(pg, case['agg'])()
            ctx.count('cmp_total')
            ctx.count('cmp_integer_column_labels')
            d = compare(got[-1], exp)
            if d is not None:
                ctx.violate('%s@%s' % (d[0], label), '%s: after batch %d emitted %s, pandas gives %s (%s)'
                            % (label, k + 1, show(got[-1], 160), show(exp, 160), d[1]), case)
                return compared
            if len(b):
                compared += 1
    finally:
        try:
            sk.destroy()
        except Exception:                                  # noqa: BLE001
            pass
    return compared
