"""C05 -- checkpoint liveness / balance: counts equal live holders and return
to zero.

Monitor: every input carries an instrumented RefCounter (the real arithmetic,
observed).  At every quiescent point -- after each synchronous emit has
returned; for asynchronous pipelines after the bounded settle (vf/asyncrun.py)
-- each counter is compared with the number of legitimate holders computed by
the reference interpreter, and the completion signal must have been given
exactly for the elements with no holder left.  Online: never negative, never
retained again after the signal.
"""
import random

from .. import progs, syncrun

PID = 'C05'
LEVEL = 'exploration'
RULE = ('sync family: programs/inputs as C01 with a reference counter on every input (duplicates and colliding keys '
        'are the norm); async family: see vf/asyncrun.py; a case is non-trivial if >=3 non-sink nodes, at least one '
        'element was dropped or held by some node (model holders or filtered elements exist) and >=1 counter was '
        'compared; distinct by hash of (program, inputs, mode)')
REQUIRED = ['counter_vs_holders_comparisons', 'counters_expected_zero', 'counters_expected_held']
ASSUMPTIONS = ['legitimate holders = DESIGN.md Appendix A "holds afterwards"',
               'counters are only attached to elements emitted into a stream with at least one child']


def plan(tier):
    if tier == 'thorough':
        return {'shards': 16, 'timeout_s': 1500}
    return {'shards': 8, 'timeout_s': 280}


def n_cases(tier):
    return 20000 if tier == 'thorough' else 1500


ASYNC_HOLDERS = ['buffer', 'delay', 'rate_limit', 'map_async', 'timed_window', 'timed_window_unique',
                 'partition_timeout', 'latest']


def one_case(rng, tier):
    if rng.random() < 0.08:
        # holders and droppers over None / falsy / string / nested-tuple elements
        from .. import aprogs
        g = aprogs.XAGen(rng, async_ops=ASYNC_HOLDERS, max_nodes=6)
        prog = g.program(min_async=1)
        return {'prog': prog, 'producers': g.producers(prog, max_total=16), 'awaiting': rng.random() < 0.7,
                'family': 'async', 'inputs': [], 'mode': 'vloop', 'exotic': True}
    if rng.random() < 0.08:
        xg = progs.XGen(rng, max_nodes=7)
        prog = xg.program()
        inputs = xg.inputs(prog)
        for it in inputs:
            it[2] = max(1, it[2])
        return {'prog': prog, 'inputs': inputs, 'mode': 'async' if rng.random() < 0.5 else 'plain', 'family': 'sync', 'exotic': True}
    if rng.random() < 0.35:
        from .. import aprogs
        g = aprogs.AGen(rng, async_ops=ASYNC_HOLDERS, max_nodes=7, fail_prob=0.0, p_async=0.5)
        prog = g.program(min_async=1)
        prods = g.producers(prog, max_total=16)
        ma = [s['id'] for s in prog['nodes'] if s['op'] == 'map_async']
        if ma and rng.random() < 0.5:
            # the node is stopped and started again from outside while elements are on their way (idle worker, busy worker,
            # start() on a running node); every stop is followed by a start, so nothing is left waiting in a stopped node
            for _ in range(rng.choice([1, 1, 2])):
                p = rng.choice(prods)
                pos = rng.randrange(len(p) + 1)
                nid = rng.choice(ma)
                calls = rng.choice([['stop', 'start'], ['stop', 'start'], ['start'], ['stop', 'stop', 'start'], ['start', 'start']])
                for j, c in enumerate(calls):
                    p.insert(pos + j, [rng.choice([0, 0, -1, -2, 0.25, 0.5, 1.0]), '!call', [nid, c], 0])
        return {'prog': prog, 'producers': prods, 'awaiting': rng.random() < 0.7,
                'family': 'async', 'inputs': [], 'mode': 'vloop'}
    g = progs.Gen(rng, max_nodes=12 if tier == 'thorough' else 10)
    prog = g.program()
    inputs = g.inputs(prog, max_len=40 if tier == 'thorough' else 25)
    for it in inputs:
        it[2] = max(1, it[2])
    mode = 'async' if rng.random() < 0.5 else 'plain'
    return {'prog': prog, 'inputs': inputs, 'mode': mode, 'family': 'sync'}


def balance_by_class(log, uid):
    net = {}
    for e in log.ev:
        if e[2] == 'REF' and e[3] == uid and e[4] in ('retain', 'release'):
            cls = str(e[6]).split('.')[0]
            n = e[7]
            net[cls] = net.get(cls, 0) + (n if e[4] == 'retain' else -n)
    return {k: v for k, v in net.items() if v}


OPCLASS = {'sink_flush': 'sink', 'source': 'Stream'}


def model_by_class(model, d):
    out = {}
    for n in model.nodes.values():
        c = sum(1 for m in n.holds() if m is d)
        if c:
            cls = OPCLASS.get(n.op, n.op)
            out[cls] = out.get(cls, 0) + c
    return out


def check_sync(case, counters, sets):
    prog, inputs, mode = case['prog'], case['inputs'], case['mode']
    has_child = {}

    res = syncrun.run_case(prog, inputs, mode=mode, with_refs=True)
    if res.hung:
        return None, []
    viols, seen = [], set()

    def add(key, what):
        if key not in seen:
            seen.add(key)
            viols.append({'key': key, 'what': what, 'case': case})
    if res.emit_errors:
        i, exc = res.emit_errors[0]
        add('C05:emit-raised:%s' % type(exc).__name__, 'emit #%d raised %r' % (i, exc))
        res.n_cmp = res.n_held = 0
        return res, viols
    uid2d = {ref.uid: d for did, (j, ref, d) in res.refs.items()}
    uid2ref = {ref.uid: ref for did, (j, ref, d) in res.refs.items()}
    n_cmp = n_zero = n_held = 0
    for i, snap in res.quiescent:
        for uid, (count, triggers, holders) in snap.items():
            n_cmp += 1
            if holders == 0:
                n_zero += 1
            else:
                n_held += 1
            if count != holders:
                real = balance_by_class(res.log, uid)   # balance at the END of the run (blame only)
                add('C05:count!=holders', 'after emit #%d: counter %s is %d, the reference semantics has %d holder(s); '
                    'final net retains by class %s, model holders by class %s'
                    % (i, uid, count, holders, real, model_by_class(res.model, uid2d[uid])))
            elif holders == 0 and triggers == 0 and uid2ref[uid].max_count > 0:
                add('C05:no-signal-at-zero', 'after emit #%d: counter %s is 0 with no holder left but the completion '
                    'signal was never given' % (i, uid))
            elif holders > 0 and triggers > 0:
                add('C05:signal-while-held', 'after emit #%d: counter %s signalled completion while %d holder(s) remain'
                    % (i, uid, holders))
    for uid, ref in uid2ref.items():
        if ref.negative:
            add('C05:negative@%s' % ref.negative[0].split('.')[0],
                'counter %s became negative in %s' % (uid, ref.negative[0]))
        if ref.retain_after_trigger:
            add('C05:rise-after-zero@%s' % ref.retain_after_trigger[0].split('.')[0],
                'counter %s retained again after the completion signal, by %s' % (uid, ref.retain_after_trigger[0]))
    # refine the count mismatch key by the class whose final balance differs from the model
    out = []
    for v in viols:
        if v['key'] == 'C05:count!=holders':
            bad_cls = set()
            for uid, ref in uid2ref.items():
                real = balance_by_class(res.log, uid)
                mod = model_by_class(res.model, uid2d[uid])
                for cls in set(real) | set(mod):
                    if real.get(cls, 0) != mod.get(cls, 0):
                        bad_cls.add(cls)
            v = dict(v, key='C05:balance@' + '+'.join(sorted(bad_cls) or ['?']))
        out.append(v)
    counters['counter_vs_holders_comparisons'] = counters.get('counter_vs_holders_comparisons', 0) + n_cmp
    counters['counters_expected_zero'] = counters.get('counters_expected_zero', 0) + n_zero
    counters['counters_expected_held'] = counters.get('counters_expected_held', 0) + n_held
    counters['ref_events_observed'] = counters.get('ref_events_observed', 0) + sum(1 for e in res.log.ev if e[2] == 'REF')
    res.n_cmp, res.n_held = n_cmp, n_held
    for s in prog['nodes']:
        sets.setdefault('node_types_seen', set()).add(s['op'])
    return res, out


def check_case(case, counters, sets):
    if case.get('family', 'sync') == 'sync':
        return check_sync(case, counters, sets)
    from .. import asyncrun
    return asyncrun.check_c05(case, counters, sets)


FLUSH_CHILD = r'''
import asyncio, json, os, sys, time
sys.path.insert(0, os.environ['STREAMZ_SRC'])
case = json.loads(sys.argv[1])
from streamz import Stream
from streamz.core import RefCounter
src = Stream(asynchronous=False)
node = src
if case['before'] == 'map':
    node = node.map(lambda x: x)
c = node.collect()
got, done = [], []
tail = c
if case['between'] == 'map':
    tail = tail.map(lambda x: x)
elif case['between'] == 'buffer':
    tail = tail.buffer(2)
elif case['between'] == 'delay':
    tail = tail.delay(0.01)
if case['sink'] == 'coro':
    async def consumer(x):
        await asyncio.sleep(case['svc'])
        got.append(list(x))
else:
    def consumer(x):
        got.append(list(x))
tail.sink(consumer)
refs, sent = [], []
for rnd in range(case['rounds']):
    for i in range(case['n']):
        r = RefCounter(cb=lambda k=len(refs): done.append(k), loop=src.loop)
        refs.append(r)
        sent.append(len(sent))
        src.emit(sent[-1], metadata=[{'ref': r}])
    c.flush()                    # from the user's thread, like the emits
t0 = time.time()
want = case['rounds']
while time.time() - t0 < 5 and not (len(got) >= want and all(r.count == 0 for r in refs) and len(done) == len(refs)):
    time.sleep(0.01)
print('RESULT ' + json.dumps({'got': got, 'counts': [r.count for r in refs], 'done': sorted(done), 'sent': sent}), flush=True)
os._exit(0)
'''


def check_flush_from_user_thread(case, counters, sets):
    """A blocking pipeline (its loop runs in the background thread) fed and flushed from the user's thread: once things have
    settled (bounded: 5 s after the last flush returned; a correct run needs none of it) every collection has reached the
    consumer, every counter is back at zero and every completion callback has run.  In a child process (real threads)."""
    import json
    import os
    import subprocess
    import sys
    try:
        r = subprocess.run([sys.executable, '-W', 'ignore', '-c', FLUSH_CHILD, json.dumps(case)], capture_output=True, timeout=60,
                           env=dict(os.environ, STREAMZ_SRC=os.environ.get('STREAMZ_SRC', '/repo')))
    except subprocess.TimeoutExpired:
        return None
    line = [ln for ln in r.stdout.decode('utf8', 'replace').splitlines() if ln.startswith('RESULT ')]
    if not line:
        return None
    o = json.loads(line[-1][7:])
    viols = []
    n, rounds = case['n'], case['rounds']
    exp = [list(range(k * n, (k + 1) * n)) for k in range(rounds)]
    counters['counter_vs_holders_comparisons'] = counters.get('counter_vs_holders_comparisons', 0) + len(o['counts'])
    counters['counters_expected_zero'] = counters.get('counters_expected_zero', 0) + len(o['counts'])
    counters['collections_flushed_from_the_user_thread'] = counters.get('collections_flushed_from_the_user_thread', 0) + rounds
    where = 'collect-flushed-from-the-user-thread[%s sink]' % case['sink']
    if o['got'] != exp:
        viols.append({'key': 'C05:collection-never-delivered@' + where, 'case': case,
                      'what': 'blocking pipeline, %d flush() calls from the user thread: the consumer received %s, expected %s; counters %s'
                              % (rounds, o['got'], exp, o['counts'])})
    elif any(o['counts']):
        viols.append({'key': 'C05:balance@' + where, 'case': case,
                      'what': 'all collections delivered, counters %s instead of all zero' % o['counts']})
    elif o['done'] != list(range(len(o['counts']))):
        viols.append({'key': 'C05:no-signal-at-zero@' + where, 'case': case,
                      'what': 'counters all zero but completion callbacks ran only for %s' % o['done']})
    return viols


def run_shard(seed, tier, shard, nshards):
    rng = random.Random('%s-%d-%d-%s' % (PID, seed, shard, tier))
    out = {'evaluations': 0, 'keys': [], 'violations': [], 'samples': [], 'counters': {},
           'sets': {}, 'inconclusive': []}
    if shard == 0:
        # a history found by the thorough tier (seed 91): a collector without a loop is flushed from the sink of a pipeline that
        # runs on a loop, and a consumer of the collection (in that other pipeline) hands back an awaitable
        import json
        import os
        with open(os.path.join(os.path.dirname(os.path.abspath(__file__)), 'regress', 'C05-cross-pipeline-flush.json')) as fh:
            case = json.load(fh)['case']
        res, viols = check_case(case, out['counters'], out['sets'])
        out['evaluations'] += 1
        out['violations'].extend(viols or [])
    for k in range(12 if tier == 'thorough' else 3):
        case = {'flush_thread': True, 'n': rng.choice([1, 2, 3]), 'rounds': rng.choice([1, 2, 3]), 'before': rng.choice([None, 'map']),
                'between': rng.choice([None, None, 'map', 'buffer', 'delay']), 'sink': rng.choice(['sync', 'coro', 'coro']),
                'svc': rng.choice([0, 0.005, 0.02])}
        v = check_flush_from_user_thread(case, out['counters'], out['sets'])
        out['evaluations'] += 1
        if v is None:
            out['inconclusive'].append('flush-from-user-thread case %d: child gave no result' % k)
            continue
        out['violations'].extend(v)
        out['keys'].append(progs.prog_key(case, None))
    for k in range(n_cases(tier)):
        case = one_case(rng, tier)
        res, viols = check_case(case, out['counters'], out['sets'])
        out['evaluations'] += 1
        if res is None:
            out['inconclusive'].append('case %d: blocking emit did not return' % k)
            _keep_hung(case, seed, shard, k)
            continue
        nn = [s for s in case['prog']['nodes'] if s['op'] not in ('sink', 'sink_flush')]
        if len(nn) >= 3 and res.n_cmp and res.n_held:
            out['keys'].append(progs.prog_key(case['prog'], [case['inputs'], case['mode'], case.get('producers')]))
        out['violations'].extend(viols)
        if len(out['samples']) < 2 and len(nn) >= 4 and res.n_held > 3:
            i, snap = res.quiescent[-1]
            out['samples'].append({'program': [' '.join('%s=%s' % kv for kv in s.items() if kv[1] not in (None, [], {})) for s in case['prog']['nodes']],
                                   'inputs': case['inputs'][:10] or case.get('producers'), 'mode': case['mode'],
                                   'final_quiescent_point': {u: {'count': c, 'signals': t, 'model_holders': h}
                                                             for u, (c, t, h) in list(snap.items())[:10]}})
    return out


def replay(case):
    if case.get('flush_thread'):
        return check_flush_from_user_thread(case, {}, {}) or []
    _, viols = check_case(case, {}, {})
    return viols


def _keep_hung(case, seed, shard, k):
    """a blocking emit that did not return within the watchdog is inconclusive, but the case is kept for inspection"""
    import json
    import os
    d = os.path.join(os.path.dirname(os.path.dirname(os.path.dirname(os.path.abspath(__file__)))), 'replays')
    os.makedirs(d, exist_ok=True)
    with open(os.path.join(d, '%s-hang-%d-%d-%d.json' % (PID, seed, shard, k)), 'w') as fh:
        json.dump({'property': PID, 'key': PID + ':inconclusive-hang', 'what': 'blocking emit did not return', 'case': case}, fh, default=str)
