"""E7 -- in-memory stand-in for the confluent_kafka client API, exactly the surface
streamz.sources.FromKafkaBatched / get_message_batch use.  One Broker object per
history survives "process" restarts; every client call is journalled into the
currently open recorder log (kind 'KAFKA').
"""
import sys
import types

OFFSET_INVALID = -1001


class KafkaException(Exception):
    pass


class FetchBlockedForEver(RuntimeError):
    """raised by the stand-in (never by Kafka) to end a fetch that would otherwise block the process for good"""


class TopicPartition:
    def __init__(self, topic, partition=-1, offset=OFFSET_INVALID):
        self.topic = topic
        self.partition = partition
        self.offset = offset

    def __repr__(self):
        return 'TP(%s,%s,%s)' % (self.topic, self.partition, self.offset)


class Message:
    def __init__(self, topic, partition, offset, key, value):
        self._t, self._p, self._o, self._k, self._v = topic, partition, offset, key, value

    def value(self):
        return self._v

    def key(self):
        return self._k

    def offset(self):
        return self._o

    def partition(self):
        return self._p

    def topic(self):
        return self._t

    def error(self):
        return None

    def __len__(self):
        # as in confluent_kafka: len(message) is the length of its value, so a message with an empty value (or a
        # tombstone, value None) is falsy
        return len(self._v) if self._v is not None else 0


class ErrorEvent(Message):
    """what poll() hands out for a transient error: error() is set, the rest is meaningless"""

    def __init__(self, topic, partition):
        Message.__init__(self, topic, partition, -1, None, None)

    def error(self):
        return KafkaException('transient error event')


class Broker:
    def __init__(self, topic, npartitions):
        self.topic = topic
        self.logs = [[] for _ in range(npartitions)]      # per partition [(key, value)]
        self.low = [0] * npartitions
        self.committed = {}                                # (group, partition) -> offset
        self.log = None                                    # recorder log of the running incarnation
        self.journal = []                                  # survives incarnations
        self.committed_failures = 0                        # how many upcoming committed() calls fail
        self.committed_fail_at = set()                     # indices (per incarnation) of committed() calls that fail
        self.n_committed = 0
        self.fetch_failures = set()                        # indices (per incarnation) of assign() calls that fail
        self.n_assign = 0
        self.empty_rule = None                             # (rate, salt, 'b' | 'none' | 'mix'): which messages have an empty value

    def note(self, *a):
        self.journal.append(a)
        if self.log is not None:
            self.log.add('KAFKA', 'broker', *a)

    def produce(self, partition, key=None, hole_before=False):
        if hole_before:
            # an offset that carries no message for consumers (transaction marker, compacted-away record): poll() skips it
            self.logs[partition].append(None)
            self.note('hole', partition, len(self.logs[partition]) - 1)
        off = len(self.logs[partition])
        value = ('p%d-o%d' % (partition, off)).encode()
        if self.empty_rule:
            import zlib
            rate, salt, kind = self.empty_rule
            z = zlib.crc32(('%d-%d-%d' % (salt, partition, off)).encode()) % 1000
            if z < rate * 1000:
                value = b'' if kind == 'b' or (kind == 'mix' and z % 2) else None      # empty payload / tombstone
        self.logs[partition].append((key, value))
        self.note('produce', partition, off)
        return value

    def add_partition(self):
        self.logs.append([])
        self.low.append(0)
        self.note('add_partition', len(self.logs) - 1)


_BROKER = None


def install(broker):
    """make `import confluent_kafka` resolve to this fake, bound to `broker`"""
    global _BROKER
    _BROKER = broker
    mod = types.ModuleType('confluent_kafka')
    mod.Consumer = Consumer
    mod.TopicPartition = TopicPartition
    mod.KafkaException = KafkaException
    mod.OFFSET_INVALID = OFFSET_INVALID
    sys.modules['confluent_kafka'] = mod
    return mod


class _TopicMeta:
    def __init__(self, n):
        self.partitions = {i: None for i in range(n)}


class _ClusterMeta:
    def __init__(self, topic, n):
        self.topics = {topic: _TopicMeta(n)}


class Consumer:
    def __init__(self, params):
        self.params = dict(params)
        self.group = self.params.get('group.id')
        self.b = _BROKER
        self.assigned = None
        self.pos = None
        self.closed = False
        if str(self.params.get('enable.auto.commit', 'true')).lower() != 'false':
            self.b.note('auto_commit_enabled', self.group)

    def poll(self, timeout=None):
        if self.assigned is None:
            return None
        t, p = self.assigned
        k = getattr(self.b, 'n_fetch_polls', 0)
        self.b.n_fetch_polls = k + 1
        if k in getattr(self.b, 'error_polls', ()):
            # an error event (not a message) in the middle of a fetch: the caller has to go on polling
            self.b.note('error_event', p, self.pos)
            return ErrorEvent(t, p)
        while self.pos < len(self.b.logs[p]) and self.b.logs[p][self.pos] is None:
            self.pos += 1
        if self.pos < len(self.b.logs[p]):
            k, v = self.b.logs[p][self.pos]
            m = Message(t, p, self.pos, k, v)
            self.pos += 1
            self.idle_polls = 0
            return m
        # nothing (more) in the partition.  The callers poll in a blocking loop on the event-loop thread: while they do, the
        # virtual-time history cannot move on, so nothing will ever arrive -- a caller that keeps polling is blocked for ever
        self.idle_polls = getattr(self, 'idle_polls', 0) + 1
        if self.idle_polls > 200:
            self.b.note('fetch_blocked_for_ever', p, self.pos)
            raise FetchBlockedForEver('the fetch of partition %d keeps polling at offset %d, beyond the last message' % (p, self.pos))
        return None

    def assign(self, tps):
        tp = tps[0]
        k = self.b.n_assign
        self.b.n_assign += 1
        if k in self.b.fetch_failures:
            # transient broker trouble while a batch is being fetched (only get_message_batch assigns)
            self.b.note('assign_failed', tp.partition, tp.offset)
            raise KafkaException('transient failure while fetching partition %d from offset %d' % (tp.partition, tp.offset))
        self.assigned = (tp.topic, tp.partition)
        self.pos = tp.offset
        self.b.note('assign', tp.partition, tp.offset)

    def get_watermark_offsets(self, tp, timeout=None, cached=False):
        if tp.partition >= len(self.b.logs):
            raise KafkaException('unknown partition')
        if timeout is not None:
            # the polling loop's look-ups (short timeout); the one made by start() has none
            k = getattr(self.b, 'n_wm', 0)
            self.b.n_wm = k + 1
            if k in getattr(self.b, 'wm_fail_at', ()):
                self.b.note('watermark_failed', tp.partition)
                raise KafkaException('transient failure (timeout) fetching the watermarks of partition %d' % tp.partition)
        lo, hi = self.b.low[tp.partition], len(self.b.logs[tp.partition])
        return lo, hi

    def committed(self, tps, timeout=None):
        k = self.b.n_committed
        self.b.n_committed += 1
        if k in self.b.committed_fail_at:
            self.b.note('committed_failed')
            raise KafkaException('transient failure fetching committed offsets (call %d)' % k)
        if self.b.committed_failures > 0:
            # transient broker trouble: the call may be retried
            self.b.committed_failures -= 1
            self.b.note('committed_failed')
            raise KafkaException('transient failure fetching committed offsets')
        out = []
        for tp in tps:
            out.append(TopicPartition(tp.topic, tp.partition, self.b.committed.get((self.group, tp.partition), OFFSET_INVALID)))
        return out

    def commit(self, offsets=None, asynchronous=True, message=None):
        for tp in offsets or []:
            self.b.committed[(self.group, tp.partition)] = tp.offset
            self.b.note('commit', self.group, tp.partition, tp.offset)

    def list_topics(self, topic=None, timeout=None):
        return _ClusterMeta(self.b.topic, len(self.b.logs))

    def subscribe(self, topics):
        pass

    def unsubscribe(self):
        pass

    def close(self):
        self.closed = True
