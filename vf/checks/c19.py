"""C19 -- one event loop per pipeline; asynchronous pipelines never leave the caller's loop.

The configuration space {upstream situation} x {node type} x {asynchronous = None/True/False} x {loop = none /
caller's current loop / another loop} is finite and is enumerated completely.  For every configuration the real
constructor is called and the monitor reads node.loop / node.asynchronous of every node of the pipeline, the set of
live threads and streamz.core._io_loops, and compares with a small expectation table (DESIGN.md Appendix B):
 conflict   construction raises ValueError iff the explicit request conflicts with the pipeline it extends;
 inherit    otherwise the node has the expected loop object, the whole pipeline shares that one loop object, and the
            asynchronous flags agree along the pipeline;
 async      asynchronous=True: loop is the caller's IOLoop.current(), no thread is started, _io_loops does not grow;
 fallback   a loop-needing, undeclared, unbound node is on the shared background loop.
Runnable asynchronous sources are started on the virtual loop and every callback (sink function) must run on the
caller's thread.  A few configurations are repeated in pristine subprocesses to observe "no thread at all".
"""
import io
import json
import os
import queue
import random
import subprocess
import sys
import threading

from ..vloop import virtual_env

PID = 'C19'
LEVEL = 'exploration'
EXHAUSTIVE = True
RULE = ('complete enumeration of upstream in {absent, unbound, unbound chain of two, unbound with an existing sibling branch, asynchronous, blocking, blocking through the background-loop fallback (below the loop-needing node, beside it, below an undeclared source), bound to '
        'another loop, join of bound+unbound in both orders} x node type in {plain without kwargs (map), plain with kwargs (pluck, '
        'sliding_window, union, zip, combine_latest, sink), loop-needing (partition, timed_window, timed_window_unique, '
        'delay, rate_limit, buffer, latest, map_async), 12 source classes} x asynchronous in {None, True, False} x loop '
        'in {none, current, other} (where the constructor accepts them); non-trivial = every configuration in which at '
        'least one of upstream / asynchronous / loop carries information; distinct by configuration tuple; plus pristine '
        'subprocess runs of asynchronous sources')
REQUIRED = ['configurations_checked', 'conflict_expectations_checked', 'async_no_thread_checks', 'callback_thread_checks',
            'pristine_subprocess_runs']
ASSUMPTIONS = ['expectation table = DESIGN.md Appendix B', 'sources that need network peers are constructed, not started']

PLAIN_NOKW = ['map']
PLAIN_KW = ['pluck', 'sliding_window', 'union', 'zip', 'combine_latest', 'sink', 'unique', 'collect']
NEEDS_KW = ['partition', 'timed_window', 'timed_window_unique', 'delay', 'rate_limit', 'buffer', 'latest']
NEEDS_NOKW = ['map_async']
SOURCES = ['from_iterable', 'from_periodic', 'from_textfile', 'filenames', 'from_q', 'from_tcp', 'from_http_server',
           'from_process', 'from_kafka', 'FromKafkaBatched', 'from_websocket', 'from_mqtt']
UPS = ['absent', 'unbound', 'chain', 'sibling', 'async', 'blocking', 'other', 'join', 'join_rev', 'fallback', 'fallback_sib',
       'fallback_src']


def plan(tier):
    return {'shards': 4 if tier == 'quick' else 16, 'timeout_s': 280 if tier == 'quick' else 900}


def configurations():
    out = []
    for t in PLAIN_NOKW + NEEDS_NOKW:
        for u in UPS:
            if u != 'absent':
                out.append((u, t, None, 'none'))
    for t in PLAIN_KW + NEEDS_KW:
        for u in UPS:
            if u == 'absent':
                continue
            for a in (None, True, False):
                for lp in ('none', 'current', 'other'):
                    out.append((u, t, a, lp))
    for t in SOURCES:
        for a in (None, True, False):
            for lp in ('none', 'current', 'other'):
                out.append(('absent', t, a, lp))
    return out


async def _noop(x):
    return x


def build(cfg, cur, other, bg_getter):
    """returns (pipeline nodes list [U..., N]) or raises"""
    from streamz import Stream
    import streamz
    import streamz.sources as ss
    u, t, a, lp = cfg
    kw = {}
    if a is not None:
        kw['asynchronous'] = a
    if lp == 'current':
        kw['loop'] = cur
    elif lp == 'other':
        kw['loop'] = other
    ups = []
    if u == 'unbound':
        ups = [Stream()]
    elif u == 'chain':
        s0 = Stream()
        ups = [s0, s0.map(lambda x: x)]
    elif u == 'sibling':
        # a branch of the same pipeline that exists before the pipeline learns its loop
        s0 = Stream()
        sib = s0.map(lambda x: x)
        sib2 = sib.map(lambda x: x)
        ups = [sib2, sib, s0]
    elif u == 'async':
        ups = [Stream(asynchronous=True)]
    elif u == 'blocking':
        ups = [Stream(asynchronous=False)]
    elif u == 'other':
        ups = [Stream(loop=other)]
    elif u == 'fallback':
        # an undeclared pipeline that the background-loop fallback of a loop-needing node has made a blocking one
        s0 = Stream()
        ups = [s0, s0.timed_window(1000)]
    elif u == 'fallback_sib':
        s0 = Stream()
        ups = [s0.buffer(2), s0]           # the new node becomes a sibling of the loop-needing one
    elif u == 'fallback_src':
        ups = [Stream.from_periodic(lambda: 1, 1000)]      # undeclared source: blocking by fallback
    elif u == 'join':
        b0 = Stream(asynchronous=True)
        u0 = Stream()
        ups = [b0, u0, b0.union(u0)]
    elif u == 'join_rev':
        b0 = Stream(asynchronous=True)
        u0 = Stream()
        ups = [b0, u0, u0.union(b0)]       # the undeclared stream comes first
    up = ups[-1] if ups else None
    if bg_getter is not None:
        bg_getter.extend((n_, n_.loop, n_.asynchronous) for n_ in ups)       # what the pipeline looked like before the new node
    if t == 'map':
        n = up.map(lambda x: x)
    elif t == 'map_async':
        n = up.map_async(_noop)
    elif t == 'pluck':
        n = up.pluck(0, **kw)
    elif t == 'sliding_window':
        n = up.sliding_window(2, **kw)
    elif t == 'unique':
        n = up.unique(**kw)
    elif t == 'collect':
        n = up.collect(**kw)
    elif t in ('union', 'zip', 'combine_latest'):
        other_in = Stream()
        ups = ups + [other_in]
        n = getattr(up, t)(other_in, **kw)
    elif t == 'sink':
        n = up.sink(lambda x: None, **kw)
    elif t == 'partition':
        n = up.partition(2, **kw)
    elif t == 'timed_window':
        n = up.timed_window(1000, **kw)
    elif t == 'timed_window_unique':
        n = up.timed_window_unique(1000, **kw)
    elif t == 'delay':
        n = up.delay(1000, **kw)
    elif t == 'rate_limit':
        n = up.rate_limit(1000, **kw)
    elif t == 'buffer':
        n = up.buffer(3, **kw)
    elif t == 'latest':
        n = up.latest(**kw)
    elif t == 'from_iterable':
        n = Stream.from_iterable([1, 2], **kw)
    elif t == 'from_periodic':
        n = Stream.from_periodic(lambda: 1, 1000, **kw)
    elif t == 'from_textfile':
        n = Stream.from_textfile(io.StringIO('a\n'), **kw)
    elif t == 'filenames':
        n = Stream.filenames('/nonexistent-dir-for-c19/*', **kw)
    elif t == 'from_q':
        n = ss.from_q(queue.Queue(), **kw)
    elif t == 'from_tcp':
        n = Stream.from_tcp(0, **kw)
    elif t == 'from_http_server':
        n = Stream.from_http_server(0, **kw)
    elif t == 'from_process':
        n = Stream.from_process(['true'], **kw)
    elif t == 'from_kafka':
        n = Stream.from_kafka(['t'], {'group.id': 'g'}, **kw)
    elif t == 'FromKafkaBatched':
        n = ss.FromKafkaBatched('t', {'group.id': 'g'}, **kw)
    elif t == 'from_websocket':
        n = ss.from_websocket('localhost', 0, **kw)
    elif t == 'from_mqtt':
        n = ss.from_mqtt('localhost', 0, 't', **kw)
    else:
        raise KeyError(t)
    return ups + [n]


def expectation(cfg, cur, other):
    """('raise',) or ('ok', loop_kind, asynchronous_or_None_meaning_unspecified)"""
    u, t, a, lp = cfg
    needs = t in NEEDS_KW or t in NEEDS_NOKW or t in SOURCES
    u_loop = {'absent': None, 'unbound': None, 'chain': None, 'sibling': None, 'async': 'current', 'blocking': 'bg', 'other': 'other',
              'join': 'current', 'join_rev': 'current', 'fallback': 'bg', 'fallback_sib': 'bg', 'fallback_src': 'bg'}[u]
    u_async = {'absent': None, 'unbound': None, 'chain': None, 'sibling': None, 'async': True, 'blocking': False, 'other': None,
               'join': True, 'join_rev': True, 'fallback': False, 'fallback_sib': False, 'fallback_src': False}[u]
    if a is not None and u_async is not None and a != u_async:
        return ('raise',)
    if lp != 'none' and u_loop is not None and lp != u_loop:
        return ('raise',)
    eff = a if a is not None else u_async
    if lp != 'none':
        loop = lp
    elif u_loop is not None:
        loop = u_loop
    elif eff is True:
        loop = 'current'
    elif eff is False:
        loop = 'bg'
    elif needs:
        loop = 'bg'
        eff = False
    else:
        loop = None
    if eff is None and needs and loop in (None,):
        eff = False
    return ('ok', loop, eff)


def check_config(cfg, counters, viols, case_of):
    import streamz.core as score
    from tornado.ioloop import IOLoop

    def add(key, what):
        viols.append({'key': key, 'what': what, 'case': case_of(cfg)})
    with virtual_env() as env:
        cur = env.io
        other = IOLoop(make_current=False)
        try:
            exp = expectation(cfg, cur, other)
            th0 = set(threading.enumerate())
            n_loops0 = len(score._io_loops)
            before = []
            try:
                nodes = build(cfg, cur, other, before)
                raised = None
            except ValueError as ex:
                nodes, raised = None, ex
                changed = [(type(n_).__name__, _lk(l_, cur, other, score), a_, _lk(n_.loop, cur, other, score), n_.asynchronous)
                           for n_, l_, a_ in before if n_.loop is not l_ or n_.asynchronous is not a_]
                counters['refused_constructions_checked_for_side_effects'] = counters.get('refused_constructions_checked_for_side_effects', 0) + 1
                if changed:
                    add('C19:refused-construction-changed-the-pipeline@%s' % _klass(cfg), '%r raised %r, but nodes of the pipeline it would have '
                        'extended were changed (class, loop before, mode before, loop after, mode after): %s' % (cfg, ex, changed[:4]))
            except Exception as ex:
                add('C19:construction-raised:%s@%s' % (type(ex).__name__, cfg[1]), '%r: %r' % (cfg, ex))
                return
            counters['configurations_checked'] = counters.get('configurations_checked', 0) + 1
            counters['conflict_expectations_checked'] = counters.get('conflict_expectations_checked', 0) + 1
            if exp[0] == 'raise':
                counters['conflicts_expected'] = counters.get('conflicts_expected', 0) + 1
                if raised is None:
                    n = nodes[-1]
                    add('C19:conflict-not-raised', '%r: conflicting request accepted silently; node.loop=%s asynchronous=%r, '
                        'upstream loop=%s asynchronous=%r' % (cfg, _lk(n.loop, cur, other, score), n.asynchronous,
                                                              _lk(nodes[0].loop, cur, other, score), nodes[0].asynchronous))
                return
            if raised is not None:
                add('C19:unexpected-ValueError@%s' % _klass(cfg), '%r raised %r although nothing conflicts' % (cfg, raised))
                return
            n = nodes[-1]
            lk = _lk(n.loop, cur, other, score)
            if lk != exp[1]:
                add('C19:wrong-loop@%s' % _klass(cfg), '%r: node.loop is %s, expected %s (asynchronous=%r)' % (cfg, lk, exp[1], n.asynchronous))
            if exp[2] is not None and bool(n.asynchronous) != bool(exp[2]):
                add('C19:wrong-mode@%s' % _klass(cfg), '%r: node.asynchronous=%r, expected %r' % (cfg, n.asynchronous, exp[2]))
            elif exp[2] is False and n.asynchronous is None and cfg[0] in ('blocking', 'fallback', 'fallback_sib', 'fallback_src'):
                # the pipeline it extends is a blocking one: that is inherited like the loop is, not left undecided
                add('C19:blocking-mode-not-inherited@%s' % _klass(cfg), '%r: the pipeline is blocking (asynchronous=False), the new node has '
                    'asynchronous=None (its loop: %s)' % (cfg, lk))
            if exp[2] is None and cfg[1] != 'sink' and cfg[1] not in SOURCES:
                # nothing has declared a mode anywhere in this pipeline: declaring one now is legal (a loop-needing node that
                # inherited its loop must not have decided "blocking" on the pipeline's behalf)
                counters['undeclared_pipelines_given_a_mode_afterwards'] = counters.get('undeclared_pipelines_given_a_mode_afterwards', 0) + 1
                try:
                    n.pluck(0, asynchronous=True)
                except ValueError as ex:
                    add('C19:undeclared-pipeline-refuses-a-mode@%s' % _klass(cfg), '%r: no node was given a mode (the new node has '
                        'asynchronous=%r, loop %s), yet a further node with asynchronous=True is refused: %r' % (cfg, n.asynchronous, lk, ex))
            # one loop per pipeline + mode agreement
            if n.loop is not None:
                for m in nodes[:-1]:
                    if m.loop is not n.loop:
                        add('C19:pipeline-split@%s' % _klass(cfg), '%r: a node of the pipeline has loop %s while the new node has %s'
                            % (cfg, _lk(m.loop, cur, other, score), lk))
                        break
            for m in nodes[:-1]:
                if m.asynchronous is not None and n.asynchronous is not None and bool(m.asynchronous) != bool(n.asynchronous):
                    add('C19:mode-disagreement@%s' % _klass(cfg), '%r: upstream asynchronous=%r, node asynchronous=%r' % (cfg, m.asynchronous, n.asynchronous))
                    break
            if exp[2] is True and exp[1] == 'current':
                counters['async_no_thread_checks'] = counters.get('async_no_thread_checks', 0) + 1
                new_threads = [t for t in threading.enumerate() if t not in th0]
                if new_threads or len(score._io_loops) != n_loops0:
                    add('C19:async-started-thread@%s' % _klass(cfg), '%r: threads started %s, _io_loops grew by %d'
                        % (cfg, new_threads, len(score._io_loops) - n_loops0))
                if cfg[1] in ('from_iterable', 'from_periodic', 'from_textfile', 'from_q', 'filenames') and lk == 'current':
                    seen = []
                    n.sink(lambda x: seen.append(threading.get_ident()))
                    if cfg[1] == 'from_q':
                        n.q.put(1)
                    n.start()
                    env.loop.run_for(0.5)
                    n.stop()
                    counters['callback_thread_checks'] = counters.get('callback_thread_checks', 0) + 1
                    if cfg[1] in ('from_iterable', 'from_periodic', 'from_textfile', 'from_q'):
                        if not seen:
                            add('C19:async-source-did-not-run-on-caller-loop@%s' % cfg[1], '%r: started on the caller loop but nothing was delivered while that loop ran' % (cfg,))
                        elif set(seen) != {threading.get_ident()}:
                            add('C19:callback-on-foreign-thread@%s' % cfg[1], '%r: sink ran on thread(s) %s' % (cfg, set(seen)))
        finally:
            try:
                other.close(all_fds=True)
            except Exception:
                pass


SIDES = ['unbound', 'unbound_chain', 'async', 'blocking', 'fallback', 'other', 'blocking_on_current_chain']


def _side(kind, cur, other):
    """(nodes of one pipeline, the node that takes part in the connect, known loop kind, known mode)"""
    from streamz import Stream
    if kind == 'unbound':
        s = Stream()
        return [s], s, None, None
    if kind == 'unbound_chain':
        s = Stream()
        m = s.map(lambda x: x)
        return [s, m], m, None, None
    if kind == 'async':
        s = Stream(asynchronous=True)
        m = s.map(lambda x: x)
        return [s, m], m, 'current', True
    if kind == 'blocking':
        s = Stream(asynchronous=False)
        return [s], s, 'bg', False
    if kind == 'fallback':
        s = Stream()
        b = s.buffer(2)
        return [s, b], s, 'bg', False
    if kind == 'blocking_on_current_chain':
        # declared blocking but on the caller's loop; the node taking part in the connect has inherited the loop only
        # (a blocking declaration is not handed down at creation), so the conflict with an asynchronous side sits one node deeper
        s = Stream(asynchronous=False, loop=cur)
        m = s.map(lambda x: x)
        return [s, m], m, 'current', False
    s = Stream(loop=other)
    return [s], s, 'other', None


def check_connect(up_kind, down_kind, counters, viols):
    """two pipelines built separately are joined with connect(): afterwards they are one pipeline -- one loop, one mode -- or
    the connect raises because what the two sides already know conflicts"""
    import streamz.core as score
    from tornado.ioloop import IOLoop
    cfg = ('connect', up_kind, down_kind)

    def add(key, what):
        viols.append({'key': key, 'what': what, 'case': {'connect': [up_kind, down_kind]}})
    with virtual_env() as env:
        cur = env.io
        other = IOLoop(make_current=False)
        try:
            un, u, ul, ua = _side(up_kind, cur, other)
            dn, d, dl, da = _side(down_kind, cur, other)
            conflict = (ul is not None and dl is not None and ul != dl) or (ua is not None and da is not None and ua != da)
            before = [(n.loop, n.asynchronous) for n in un + dn]
            try:
                u.connect(d)
                raised = None
            except ValueError as ex:
                raised = ex
            if raised is not None:
                # a refused connect leaves both pipelines as they were
                if d in list(u.downstreams) or u in list(d.upstreams):
                    add('C19:refused-connect-left-the-edge@connect', '%r raised %r but the two nodes are linked' % (cfg, raised))
                elif [(n.loop, n.asynchronous) for n in un + dn] != before:
                    add('C19:refused-connect-changed-the-pipelines@connect', '%r raised %r; loop/asynchronous of the nodes before %s, after %s'
                        % (cfg, raised, [(_lk(l, cur, other, score), a) for l, a in before],
                           [(_lk(n.loop, cur, other, score), n.asynchronous) for n in un + dn]))
            counters['configurations_checked'] = counters.get('configurations_checked', 0) + 1
            counters['conflict_expectations_checked'] = counters.get('conflict_expectations_checked', 0) + 1
            counters['connect_configurations_checked'] = counters.get('connect_configurations_checked', 0) + 1
            if conflict:
                counters['conflicts_expected'] = counters.get('conflicts_expected', 0) + 1
                if raised is None:
                    add('C19:conflict-not-raised@connect', '%r: upstream side knows loop=%s asynchronous=%r, downstream side loop=%s asynchronous=%r; '
                        'connect() joined them silently' % (cfg, ul, ua, dl, da))
                return
            if raised is not None:
                add('C19:unexpected-ValueError@connect', '%r raised %r although nothing conflicts' % (cfg, raised))
                return
            loops = {_lk(n.loop, cur, other, score) for n in un + dn}
            if len(loops) > 1:
                add('C19:pipeline-split@connect', '%r: after connect() the nodes of the joined pipeline have loops %s' % (cfg, sorted(map(str, loops))))
            modes = {bool(n.asynchronous) for n in un + dn if n.asynchronous is not None}
            known = {n.asynchronous is not None for n in un + dn}
            if len(modes) > 1 or (True in known and False in known):
                add('C19:mode-disagreement@connect', '%r: after connect() asynchronous flags are %s' % (cfg, [n.asynchronous for n in un + dn]))
        finally:
            try:
                other.close(all_fds=True)
            except Exception:
                pass


def check_map_async_start(counters, viols):
    """a blocking pipeline with map_async whose worker is started explicitly from the user's thread (start() walks up to the
    sources): the worker belongs to the pipeline's loop -- the shared background loop -- like everything else of the node;
    on any other loop it would never run.  Real threads; the blocking emit must come back with the result delivered."""
    import asyncio
    from streamz import Stream

    async def double(x):
        await asyncio.sleep(0.001)
        return 2 * x
    src = Stream()
    m = src.map_async(double)
    got = m.sink_to_list()
    box = {}

    def user():
        try:
            m.start()               # from a thread that is not the loop's (and, the first time, has no loop of its own)
            src.emit(21)
            import time as _t
            t0 = _t.time()
            while got != [42] and _t.time() - t0 < 6:          # map_async buffers: the emit returns once the job is queued
                _t.sleep(0.01)
            box['done'] = True
        except Exception as ex:     # noqa: BLE001
            box['exc'] = ex
    th = threading.Thread(target=user, daemon=True)
    th.start()
    th.join(15)
    counters['map_async_started_from_user_thread'] = counters.get('map_async_started_from_user_thread', 0) + 1
    if 'exc' in box:
        viols.append({'key': 'C19:start-from-user-thread-raised:%s@map_async' % type(box['exc']).__name__,
                      'what': 'map_async.start() / emit() on a blocking pipeline from the user thread raised %r' % (box['exc'],), 'case': {'map_async_start': True}})
    elif not box.get('done') or got != [42]:
        viols.append({'key': 'C19:worker-not-on-the-pipeline-loop@map_async',
                      'what': 'blocking pipeline, map_async.start() called from the user thread: the blocking emit %s and the sink received %s'
                              % ('returned' if box.get('done') else 'did not return within 8 s', got), 'case': {'map_async_start': True}})


def check_foreign_loop_emit(counters, viols):
    """a blocking pipeline lives on the shared background loop; a blocking emit issued from a coroutine that runs on ANOTHER
    loop (asyncio.run in the caller's thread) still has the pipeline's callbacks run on the background loop's thread"""
    import asyncio
    from streamz import Stream
    src = Stream()
    node = src.rate_limit(0)
    seen = []
    node.sink(lambda x: seen.append(threading.get_ident()))
    box = {}

    def user():
        box['ident'] = threading.get_ident()

        async def main():
            return src.emit(1)
        try:
            box['ret'] = asyncio.run(main())
        except Exception as ex:         # noqa: BLE001
            box['exc'] = ex
    th = threading.Thread(target=user, daemon=True)
    th.start()
    th.join(15)
    counters['blocking_emits_from_a_foreign_loop'] = counters.get('blocking_emits_from_a_foreign_loop', 0) + 1
    if 'exc' in box:
        viols.append({'key': 'C19:emit-from-foreign-loop-raised:%s' % type(box['exc']).__name__, 'what': repr(box['exc']), 'case': {'foreign_loop_emit': True}})
    elif not seen or seen[0] == box.get('ident'):
        viols.append({'key': 'C19:callback-on-foreign-thread@blocking-pipeline',
                      'what': 'blocking emit made from a coroutine on another loop: the sink ran on %s (caller thread %s); emit returned %r'
                              % (seen, box.get('ident'), box.get('ret')), 'case': {'foreign_loop_emit': True}})


def _klass(cfg):
    t = cfg[1]
    if t in SOURCES:
        return 'source'
    if t in NEEDS_KW or t in NEEDS_NOKW:
        return 'loop-needing-node'
    return 'plain-node'


def _lk(loop, cur, other, score):
    if loop is None:
        return None
    if loop is cur:
        return 'current'
    if loop is other:
        return 'other'
    if score._io_loops and loop is score._io_loops[-1]:
        return 'bg'
    return 'unknown:%r' % (loop,)


PRISTINE = r'''
import asyncio, sys, threading, json, io, queue
sys.path.insert(0, %(src)r)
import streamz.core as score
from streamz import Stream
import streamz.sources as ss
kind = %(kind)r
out = {}
async def main():
    seen = []
    if kind == 'from_iterable':
        s = Stream.from_iterable([1, 2, 3], asynchronous=True)
    elif kind == 'from_periodic':
        s = Stream.from_periodic(lambda: 1, 0.01, asynchronous=True)
    elif kind == 'from_textfile':
        s = Stream.from_textfile(io.StringIO('a\nb\n'), poll_interval=0.01, asynchronous=True)
    elif kind == 'from_q':
        q = queue.Queue(); q.put(1); q.put(2)
        s = ss.from_q(q, asynchronous=True)
    elif kind == 'from_kafka_batched':
        sys.path.insert(0, %(verif)r)
        from vf import kafka_fake
        broker = kafka_fake.Broker('t', 1)
        for _ in range(4):
            broker.produce(0)
        kafka_fake.install(broker)
        commit_threads = []
        orig_commit = kafka_fake.Consumer.commit
        def commit(self, *a, **k):
            commit_threads.append(threading.get_ident())
            return orig_commit(self, *a, **k)
        kafka_fake.Consumer.commit = commit
        s = Stream.from_kafka_batched('t', {'bootstrap.servers': 'x', 'group.id': 'g', 'auto.offset.reset': 'earliest'},
                                      poll_interval=0.02, max_batch_size=2, asynchronous=True)
    elif kind == 'blocking_then_async':
        s = PRE['src']
    elif kind == 'async_with_dask_client':
        from tornado.ioloop import IOLoop
        s = Stream.from_iterable([1, 2, 3], asynchronous=True)
        out['loop_is_callers'] = s.loop is IOLoop.current()
        out['current_unchanged'] = True
    elif kind == 'timed_window':
        s = Stream(asynchronous=True)
        s = s.timed_window(0.01)
    elif kind == 'timed_window_explicit':
        s = Stream().timed_window(0.01, asynchronous=True)
    elif kind == 'buffer_explicit':
        s = Stream().buffer(2, asynchronous=True)
    s.sink(lambda x: seen.append(threading.get_ident()))
    if hasattr(s, 'start') and kind.startswith('from_'):
        s.start()
    await asyncio.sleep(0.15)
    if kind == 'from_kafka_batched':
        await asyncio.sleep(0.2)
        seen.extend(commit_threads)           # the offset commits are callbacks of this source too
        out['commits'] = len(commit_threads)
    out['threads'] = threading.active_count()
    out['io_loops'] = len(score._io_loops)
    out['callbacks'] = len(seen)
    out['foreign'] = len([t for t in seen if t != threading.get_ident()])
    out['asynchronous'] = s.asynchronous
PRE = {}
try:
    if kind == 'blocking_then_async':
        # "build, then run the loop": a blocking pipeline is built first (it may start the background loop), then an
        # asynchronous one is declared in the same thread before any loop runs
        from tornado.ioloop import IOLoop
        lp = asyncio.new_event_loop()
        asyncio.set_event_loop(lp)
        mine = IOLoop.current()
        blocking = Stream().timed_window(1000)
        PRE['src'] = Stream.from_iterable([1, 2, 3], asynchronous=True)
        out['loop_is_callers'] = PRE['src'].loop is mine
        out['current_unchanged'] = IOLoop.current() is mine
        lp.run_until_complete(main())
        out['threads'] -= 1          # the blocking pipeline legitimately owns the background thread
        out['io_loops'] -= 1
    elif kind == 'async_with_dask_client':
        # a synchronous dask client is alive (its loop runs in its own thread): an asynchronous pipeline declared
        # now still belongs to the caller's loop
        from distributed import Client
        client = Client(processes=False, dashboard_address=None, n_workers=1, threads_per_worker=1)
        t_before = threading.active_count()
        asyncio.run(main())
        out['threads'] = 1 + (threading.active_count() - t_before if threading.active_count() > t_before else 0)
        client.close()
    else:
        asyncio.run(main())
except Exception as ex:
    out['error'] = repr(ex)
print(json.dumps(out))
'''


def pristine(kind):
    src = os.environ.get('STREAMZ_SRC', '/repo')
    code = PRISTINE % {'src': src, 'kind': kind, 'verif': os.path.dirname(os.path.dirname(os.path.dirname(os.path.abspath(__file__))))}
    try:
        p = subprocess.run([sys.executable, '-c', code], capture_output=True, timeout=60)
    except subprocess.TimeoutExpired:
        return None
    lines = [l for l in p.stdout.decode().splitlines() if l.startswith('{')]
    if not lines:
        return {'error': 'no output: ' + p.stderr.decode()[-300:]}
    return json.loads(lines[-1])


PRISTINE_KINDS = ['from_iterable', 'from_periodic', 'from_textfile', 'from_q', 'timed_window', 'timed_window_explicit',
                  'buffer_explicit', 'from_kafka_batched', 'blocking_then_async', 'async_with_dask_client']


def run_shard(seed, tier, shard, nshards):
    out = {'evaluations': 0, 'keys': [], 'violations': [], 'samples': [], 'counters': {},
           'sets': {}, 'inconclusive': []}
    cfgs = configurations()
    rng = random.Random('%s-%d' % (PID, seed))
    rng.shuffle(cfgs)           # order of construction varies with the seed (shared background loop state)
    mine = cfgs[shard::nshards]

    def case_of(cfg):
        return {'cfg': list(cfg)}
    for cfg in mine:
        v = []
        check_config(cfg, out['counters'], v, case_of)
        out['evaluations'] += 1
        if cfg[0] != 'absent' or cfg[2] is not None or cfg[3] != 'none':
            out['keys'].append(json.dumps(cfg))
        out['violations'].extend(v)
        out['sets'].setdefault('node_types', set()).add(cfg[1])
        out['sets'].setdefault('upstream_situations', set()).add(cfg[0])
        if len(out['samples']) < 3 and cfg[0] != 'absent':
            out['samples'].append({'configuration': {'upstream': cfg[0], 'node': cfg[1], 'asynchronous': cfg[2], 'loop': cfg[3]},
                                   'expected': list(expectation(cfg, None, None))})
    if shard == 1 % nshards:
        v = []
        check_foreign_loop_emit(out['counters'], v)
        out['evaluations'] += 1
        out['keys'].append('foreign_loop_emit')
        out['violations'].extend(v)
    if shard == 0:
        v = []
        check_map_async_start(out['counters'], v)
        out['evaluations'] += 1
        out['keys'].append('map_async_start')
        out['violations'].extend(v)
    pairs = [(a, b) for a in SIDES for b in SIDES]
    for a, b in pairs[shard::nshards]:
        v = []
        check_connect(a, b, out['counters'], v)
        out['evaluations'] += 1
        out['keys'].append('connect:%s:%s' % (a, b))
        out['violations'].extend(v)
    kinds = PRISTINE_KINDS[shard::nshards] if tier == 'quick' else PRISTINE_KINDS[shard % len(PRISTINE_KINDS)::max(1, nshards)]
    for kind in kinds:
        r = pristine(kind)
        out['evaluations'] += 1
        if r is None:
            out['inconclusive'].append('pristine %s: watchdog' % kind)
            continue
        out['counters']['pristine_subprocess_runs'] = out['counters'].get('pristine_subprocess_runs', 0) + 1
        out['keys'].append('pristine:' + kind)
        case = {'pristine': kind}
        if 'error' in r:
            out['violations'].append({'key': 'C19:pristine-error@%s' % kind, 'what': r['error'], 'case': case})
            continue
        if kind in ('blocking_then_async', 'async_with_dask_client') and not (r.get('loop_is_callers') and r.get('current_unchanged')):
            out['violations'].append({'key': 'C19:async-declared-after-blocking-pipeline-lands-on-foreign-loop',
                                      'what': 'a blocking pipeline was built first, then a source was declared asynchronous in the same '
                                              'thread: %s' % r, 'case': case})
        elif r['threads'] != 1 or r['io_loops'] != 0:
            out['violations'].append({'key': 'C19:async-started-thread@%s' % ('source' if kind.startswith('from_') else 'loop-needing-node'),
                                      'what': 'pristine process, %s declared asynchronous: %d threads alive, %d background loops, '
                                              'node.asynchronous=%r' % (kind, r['threads'], r['io_loops'], r['asynchronous']), 'case': case})
        elif r['foreign']:
            out['violations'].append({'key': 'C19:callback-on-foreign-thread@%s' % kind, 'what': str(r), 'case': case})
        elif kind == 'from_kafka_batched' and not r.get('commits'):
            out['violations'].append({'key': 'C19:async-source-did-not-run-on-caller-loop@%s' % kind, 'what': 'no offset commit happened: ' + str(r), 'case': case})
        elif kind.startswith('from_') and not r['callbacks']:
            out['violations'].append({'key': 'C19:async-source-did-not-run-on-caller-loop@%s' % kind, 'what': str(r), 'case': case})
    # when only some shards run pristine kinds make sure the counter exists
    out['counters'].setdefault('pristine_subprocess_runs', 0)
    return out


def replay(case):
    v = []
    if 'cfg' in case:
        cfg = tuple(case['cfg'])
        check_config(cfg, {}, v, lambda c: case)
    elif 'foreign_loop_emit' in case:
        check_foreign_loop_emit({}, v)
    elif 'map_async_start' in case:
        check_map_async_start({}, v)
    elif 'connect' in case:
        check_connect(case['connect'][0], case['connect'][1], {}, v)
    else:
        r = pristine(case['pristine'])
        if r and (r.get('error') or r.get('threads') != 1 or r.get('io_loops') != 0 or r.get('foreign')):
            v.append({'key': 'C19:pristine@%s' % case['pristine'], 'what': str(r), 'case': case})
    return v
