"""E4 -- reference interpreter of the node catalogue.

Written from the docstrings / docs (DESIGN.md Appendix A), independent of
streamz/core.py.  Push based, depth first, children visited in attachment
order.  For every node it records the output list with the output metadata,
and can say which metadata entries the node legitimately still holds.

A model node can be used inside a whole-program model (end-to-end oracle) or
stand-alone, fed with the inputs a real node was observed to receive (local
oracle).
"""
from collections import OrderedDict, deque

from . import funcs as F

NO = object()


def _mdl(md):
    return list(md) if md else []


class MNode:
    op = None

    def __init__(self, spec=None):
        self.spec = spec or {}
        self.id = self.spec.get('id')
        self.children = []
        self.ups = []
        self.out = []           # [(x, [md dicts])]
        self.ins = []           # [(who id, x)]
        self.calls = None       # global call log for sinks

    # graph -----------------------------------------------------------
    def attach(self, up):
        self.ups.append(up)
        up.children.append(self)

    def emit(self, x, md):
        md = _mdl(md)
        self.out.append((x, md))
        for c in list(self.children):
            c.ins.append((self.id, x))
            c.update(x, self, md)

    def update(self, x, who, md):
        self.emit(x, md)

    def holds(self):
        return []


class MSource(MNode):
    op = 'source'


class MMap(MNode):
    op = 'map'

    def update(self, x, who, md):
        f = self.spec.get('_fn') or F.MAPS[self.spec['f']]
        self.emit(f(x, *self.spec.get('args', ()), **self.spec.get('kwargs', {})), md)


class MStarmap(MNode):
    op = 'starmap'

    def update(self, x, who, md):
        f = self.spec.get('_fn') or F.STARS[self.spec['f']]
        self.emit(f(*(tuple(x) + tuple(self.spec.get('args', ())))), md)


class MFilter(MNode):
    op = 'filter'

    def update(self, x, who, md):
        p = self.spec.get('_fn') or F.PREDS[self.spec['p']]
        ok = bool(x) if p is None else p(x, *self.spec.get('args', ()), **self.spec.get('kwargs', {}))
        if self.spec.get('negate'):          # Stream.remove(predicate)
            ok = not ok
        if ok:
            self.emit(x, md)


class MAccumulate(MNode):
    op = 'accumulate'

    def __init__(self, spec=None):
        super().__init__(spec)
        self.state = self.spec['start'] if 'start' in self.spec else NO

    def update(self, x, who, md):
        if '_fn' in self.spec:
            f, rs = self.spec['_fn'], self.spec.get('returns_state', False)
        else:
            f, rs = F.ACCS[self.spec['f']]
        ws = self.spec.get('with_state', False)
        if self.state is NO:
            self.state = x
            self.emit((x, x) if ws else x, md)
            return
        r = f(self.state, x)
        if rs:
            st, res = r
        else:
            st = res = r
        self.state = st
        self.emit((st, res) if ws else res, md)


class MSlice(MNode):
    op = 'slice'

    def __init__(self, spec=None):
        super().__init__(spec)
        self.i = 0

    def attach(self, up):
        super().attach(up)
        b = self.spec.get('end')
        if b is not None and b <= 0:        # list[a:0] is empty: nothing to wait for
            up.children.remove(self)

    def update(self, x, who, md):
        a = self.spec.get('start') or 0
        b = self.spec.get('end')
        c = self.spec.get('step') or 1
        i = self.i
        self.i += 1
        if i >= a and (i - a) % c == 0 and (b is None or i < b):
            self.emit(x, md)
        if b is not None and self.i >= b:
            for u in list(self.ups):
                if self in u.children:
                    u.children.remove(self)
                    if self.spec.get('_detach_both_sides'):
                        self.ups.remove(u)      # C15: the edge is gone, seen from either end


def _key(spec, x, default_ident=False):
    k = spec.get('key', NO)
    if k is NO or k is None:
        return x if default_ident else None
    if isinstance(k, dict):            # {'index': i}: a non-callable key means x[key]
        return x[k['index']]
    return F.KEYS[k](x)


class MPartition(MNode):
    op = 'partition'

    def __init__(self, spec=None):
        super().__init__(spec)
        self.buf = {}

    def update(self, x, who, md):
        k = _key(self.spec, x)
        b = self.buf.setdefault(k, [])
        b.append((x, _mdl(md)))
        if len(b) == self.spec['n']:
            self.flush(k)

    def flush(self, k):
        b = self.buf.pop(k, [])
        if b:
            self.emit(tuple(x for x, _ in b), [m for _, ml in b for m in ml])

    def holds(self):
        return [m for b in self.buf.values() for _, ml in b for m in ml]


class MPartitionUnique(MNode):
    op = 'partition_unique'

    def __init__(self, spec=None):
        super().__init__(spec)
        self.buf = OrderedDict()

    def update(self, x, who, md):
        k = _key(self.spec, x, default_ident=True)
        if self.spec.get('keep', 'first') == 'last':
            self.buf.pop(k, None)
            self.buf[k] = (x, _mdl(md))
        elif k not in self.buf:
            self.buf[k] = (x, _mdl(md))
        if len(self.buf) == self.spec['n']:
            b, self.buf = list(self.buf.values()), OrderedDict()
            self.emit(tuple(x for x, _ in b), [m for _, ml in b for m in ml])

    def holds(self):
        return [m for _, ml in self.buf.values() for m in ml]


class MSlidingWindow(MNode):
    op = 'sliding_window'

    def __init__(self, spec=None):
        super().__init__(spec)
        self.vals = deque()

    def update(self, x, who, md):
        n = self.spec['n']
        self.vals.append((x, _mdl(md)))
        if len(self.vals) > n:
            self.vals.popleft()
        if self.spec.get('partial', True) or len(self.vals) == n:
            b = list(self.vals)
            self.emit(tuple(v for v, _ in b), [m for _, ml in b for m in ml])

    def holds(self):
        # the last n-1 inputs can still appear in a future window
        n = self.spec['n']
        keep = list(self.vals)[-(n - 1):] if n > 1 else []
        return [m for _, ml in keep for m in ml]


class MUnique(MNode):
    op = 'unique'

    def __init__(self, spec=None):
        super().__init__(spec)
        self.hist = []          # most recent first

    def update(self, x, who, md):
        k = _key(self.spec, x, default_ident=True)
        ms = self.spec.get('maxsize')
        if k in self.hist:
            self.hist.remove(k)
            self.hist.insert(0, k)
            return
        self.hist.insert(0, k)
        if ms:
            del self.hist[ms:]
        self.emit(x, md)


class MFlatten(MNode):
    op = 'flatten'

    def update(self, x, who, md):
        items = list(x)
        for i, it in enumerate(items):
            self.emit(it, md if i == len(items) - 1 else [])


class MPluck(MNode):
    op = 'pluck'

    def update(self, x, who, md):
        if self.spec.get('pick_tuple'):
            self.emit(x[tuple(self.spec['pick_tuple'])], md)
            return
        p = self.spec['pick']
        if isinstance(p, list):
            self.emit(tuple(x[i] for i in p), md)
        else:
            self.emit(x[p], md)


class MCollect(MNode):
    op = 'collect'

    def __init__(self, spec=None):
        super().__init__(spec)
        self.cache = []

    def update(self, x, who, md):
        self.cache.append((x, _mdl(md)))

    def flush(self):
        b, self.cache = self.cache, []
        self.emit(tuple(x for x, _ in b), [m for _, ml in b for m in ml])

    def holds(self):
        return [m for _, ml in self.cache for m in ml]


class MUnion(MNode):
    op = 'union'


class MZip(MNode):
    op = 'zip'

    def __init__(self, spec=None):
        super().__init__(spec)
        self.bufs = {}          # up id -> deque

    def _buf(self, who):
        return self.bufs.setdefault(id(who), deque())

    def update(self, x, who, md):
        self._buf(who).append((x, _mdl(md)))
        if all(self._buf(u) for u in self.ups):
            vals = [self._buf(u).popleft() for u in self.ups]
            tup = [v for v, _ in vals]
            for i, lit in self.spec.get('literals', []):
                tup.insert(i, lit)
            self.emit(tuple(tup), [m for _, ml in vals for m in ml])

    def holds(self):
        return [m for b in self.bufs.values() for _, ml in b for m in ml]


class MCombineLatest(MNode):
    op = 'combine_latest'

    def __init__(self, spec=None):
        super().__init__(spec)
        self.last = {}

    def update(self, x, who, md):
        self.last[id(who)] = (x, _mdl(md))
        eo = self.spec.get('emit_on')
        if eo is None:
            on = True
        else:
            on = self.ups.index(who) in eo
        if on and all(id(u) in self.last for u in self.ups):
            vals = [self.last[id(u)] for u in self.ups]
            self.emit(tuple(v for v, _ in vals), [m for _, ml in vals for m in ml])

    def holds(self):
        return [m for _, ml in self.last.values() for m in ml]


class MZipLatest(MNode):
    op = 'zip_latest'

    def __init__(self, spec=None):
        super().__init__(spec)
        self.last = {}
        self.queue = deque()
        self.got_lossless = False

    def update(self, x, who, md):
        lossless = self.ups[0]
        if who is lossless:
            self.queue.append((x, _mdl(md)))
            self.got_lossless = True
        else:
            self.last[id(who)] = (x, _mdl(md))
        if self.got_lossless and all(id(u) in self.last for u in self.ups[1:]):
            while self.queue:
                lx, lmd = self.queue.popleft()
                vals = [(lx, lmd)] + [self.last[id(u)] for u in self.ups[1:]]
                self.emit(tuple(v for v, _ in vals), [m for _, ml in vals for m in ml])

    def holds(self):
        return ([m for _, ml in self.last.values() for m in ml]
                + [m for _, ml in self.queue for m in ml])


class MSink(MNode):
    op = 'sink'

    def update(self, x, who, md):
        if self.calls is not None:
            self.calls.append((self.id, x))
        self.out.append((x, _mdl(md)))     # what the sink function saw


class MFlushSink(MNode):
    """sink(collector.flush): flushes the target collector on every element"""
    op = 'sink_flush'
    target = None

    def update(self, x, who, md):
        if self.calls is not None:
            self.calls.append((self.id, x))
        self.out.append((x, _mdl(md)))
        self.target.flush()


CLASSES = {c.op: c for c in [MSource, MMap, MStarmap, MFilter, MAccumulate, MSlice, MPartition,
                             MPartitionUnique, MSlidingWindow, MUnique, MFlatten, MPluck,
                             MCollect, MUnion, MZip, MCombineLatest, MZipLatest, MSink,
                             MFlushSink]}


class Model:
    """Whole-program model built from a program spec (see vf/progs.py)."""

    def __init__(self, prog):
        self.nodes = {}
        self.calls = []
        for spec in prog['nodes']:
            n = CLASSES[spec['op']](spec)
            n.calls = self.calls
            self.nodes[spec['id']] = n
            for u in spec.get('ups', []):
                n.attach(self.nodes[u])
            if spec['op'] == 'sink_flush':
                n.target = self.nodes[spec['target']]
        for u, v in prog.get('extra_edges', []):
            self.nodes[v].attach(self.nodes[u])

    def push(self, entry, x, md):
        self.nodes[entry].emit(x, md)

    def holders(self):
        """multiset {id(md dict): count} over every node's legitimate holds"""
        c = {}
        for n in self.nodes.values():
            for m in n.holds():
                c[id(m)] = c.get(id(m), 0) + 1
        return c


def standalone(spec, n_ups=1):
    """A single model node with dummy upstream tokens, for local checks."""
    n = CLASSES[spec['op']](spec)
    ups = [MNode({'id': 'up%d' % i}) for i in range(n_ups)]
    for u in ups:
        n.attach(u)
    return n, ups
