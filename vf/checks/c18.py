"""C18 -- source lifecycle: one polling loop at a time, nothing emitted after stop.

Histories of start()/stop() calls placed, in virtual time, during the poll sleep, during a backpressured emit,
between items and back-to-back (stop(); start() in one loop turn), for from_iterable, from_periodic, from_textfile,
filenames and a minimal Source subclass.  The harness wraps run()/_run() of the source *instance* to tag every polling
cycle with the run (event-loop task) that performs it.  Oracle over the history:
 one-loop   once a newer polling loop has begun a cycle (emitted an item), an older loop begins no further cycle; no
            cycle begins while the source is stopped (the cycle in progress may finish);
 no-op      start() on a started source and stop() on a stopped one create / end no run;
 order      items carry increasing numbers: nothing is delivered twice or out of order;
 exactness  from_iterable without any stop delivers exactly its items, END(k) before the call for item k+1.
"""
import asyncio
import os
import random
import shutil
import tempfile

from .. import progs
from .. import recorder as R
from ..vloop import virtual_env

PID = 'C18'
LEVEL = 'exploration'
RULE = ('source kind in {from_iterable(iterator), from_iterable(list, no stop), from_periodic, from_textfile, filenames, '
        'Source subclass}; 0-8 start/stop calls at virtual instants from a grid aligned with the poll interval (during '
        'sleep, during a slow consumer call, back-to-back in one loop turn); consumer sync/coroutine with service time '
        '{0,.5,1.5}; non-trivial = at least one item delivered and at least one stop or restart inside the active period '
        '(or the exactness run); distinct by hash(case)')
REQUIRED = ['cycles_attributed_to_runs', 'order_checks', 'restart_histories', 'exactness_runs']
ASSUMPTIONS = ['virtual clock; files in a private temporary directory removed after each run']
INCONCLUSIVE_BUDGET = 0.03


def plan(tier):
    if tier == 'thorough':
        return {'shards': 16, 'timeout_s': 1700}
    return {'shards': 8, 'timeout_s': 280}


def n_cases(tier):
    return 60000 if tier == 'thorough' else 500


def one_case(rng, tier):
    kind = rng.choice(['from_iterable', 'from_iterable', 'from_iterable_list', 'from_periodic', 'from_textfile',
                       'filenames', 'custom', 'from_q', 'custom_tornado', 'custom_listener'])
    poll = rng.choice([0.5, 1.0])
    svc = rng.choice([0, 0, 0.5, 1.5])
    ops = []
    if kind != 'from_iterable_list':
        t = 0.0
        n = rng.randrange(0, 9)
        for _ in range(n):
            t += rng.choice([0, 0, 0.25, 0.5, 1.0, 1.0, 2.0, 3.0])
            ops.append([round(t, 3), rng.choice(['start', 'stop', 'stop', 'start', 'stopstart'])])
    n_items = rng.randrange(3, 12)
    none_at = sorted(rng.sample(range(n_items), rng.choice([1, 2]))) if rng.random() < 0.3 else []
    case = {'kind': kind, 'poll': poll, 'svc': svc, 'sink': rng.choice(['sync', 'coro']), 'ops': ops,
            'n_items': n_items, 'start_at_0': True, 'none_at': none_at}
    if kind == 'from_textfile' and rng.random() < 0.4:
        case['from_end'] = True         # the file already has content, which is not to be delivered: only what is appended later
    if kind in ('custom', 'from_periodic', 'custom_tornado') and rng.random() < 0.3:
        # the consumer fails once: the exception ends the polling loop (the source stays "started"); a later stop(); ...; start()
        # must bring it back to life
        case['fail_at'] = rng.randrange(0, 4)
        t_last = ops[-1][0] if ops else 0.0
        ops.append([round(t_last + rng.choice([2.0, 3.0, 6.0]), 3), 'stop'])
        ops.append([round(ops[-1][0] + rng.choice([0, 0.25, 1.0, 3.0]), 3), 'start'])
    if kind not in ('from_iterable', 'from_iterable_list') and rng.random() < 0.2:
        # start()/stop() are called on the last node of source -> map_async -> sink: they travel up the pipeline to the source
        case['via'] = 'map_async'
    return case


def check_case(case, counters, sets):
    from streamz import Stream
    from streamz.sources import Source
    viols, seen = [], set()

    def add(key, what):
        if key not in seen:
            seen.add(key)
            viols.append({'key': key, 'what': what, 'case': case})
    kind, poll = case['kind'], case['poll']
    tmp = None
    with virtual_env() as env:
        loop = env.loop
        with R.recording(env.now) as log:
            counter = {'n': 0}
            run_of_task = {}
            if kind in ('from_iterable', 'from_iterable_list'):
                items = list(range(case['n_items']))
                for pos in case.get('none_at', []):
                    if pos < len(items):
                        items[pos] = None            # a perfectly legal item
                src = Stream.from_iterable(iter(items) if kind == 'from_iterable' else items, asynchronous=True)
            elif kind == 'from_periodic':
                def cb():
                    counter['n'] += 1
                    return counter['n']
                src = Stream.from_periodic(cb, poll, asynchronous=True)
            elif kind == 'from_textfile':
                tmp = tempfile.mkdtemp(prefix='c18-')
                path = os.path.join(tmp, 'f.txt')
                with open(path, 'w') as pre:
                    if case.get('from_end'):
                        pre.write('-2\n-1\n')
                fh = open(path)
                src = Stream.from_textfile(fh, poll_interval=poll, asynchronous=True, **({'from_end': True} if case.get('from_end') else {}))
                wf = open(path, 'a')

                def write_some():
                    for _ in range(2):
                        counter['n'] += 1
                        wf.write('%d\n' % counter['n'])
                    wf.flush()
                for i in range(case['n_items']):
                    loop.call_later(0.3 + i * 0.75, write_some)
            elif kind == 'filenames':
                tmp = tempfile.mkdtemp(prefix='c18-')
                src = Stream.filenames(tmp, poll_interval=poll, asynchronous=True)

                def make_file():
                    for _ in range(1 + counter['n'] % 3):        # 1-3 new paths per tick: batches of several files
                        counter['n'] += 1
                        open(os.path.join(tmp, '%04d.dat' % counter['n']), 'w').close()
                for i in range(case['n_items']):
                    loop.call_later(0.3 + i * 0.75, make_file)
            elif kind == 'from_q':
                import queue as _queue
                from streamz.sources import from_q
                q = _queue.Queue()
                real_get = q.get_nowait

                def get_logged():
                    log.add('POLL', 'src', run_of_task.get(asyncio.current_task()))
                    return real_get()
                q.get_nowait = get_logged
                src = from_q(q, sleep_time=poll, asynchronous=True)

                def put_some():
                    for _ in range(1 + counter['n'] % 3):
                        counter['n'] += 1
                        q.put(counter['n'])
                for i in range(case['n_items']):
                    loop.call_later(0.3 + i * 0.75, put_some)
            elif kind == 'custom_tornado':
                # a source that overrides run() in tornado style: run() returns a Future, not a native coroutine
                from tornado import gen as _gen
                runs_t = {'n': 0}

                class TornadoSource(Source):
                    @_gen.coroutine
                    def run(self):
                        runs_t['n'] += 1
                        rid = runs_t['n']
                        log.add('RUN_BEGIN', 'src', rid)
                        try:
                            while not self.stopped:
                                log.add('CYCLE_BEGIN', 'src', rid)
                                counter['n'] += 1
                                yield self._emit(counter['n'])
                                yield _gen.sleep(poll)
                                log.add('CYCLE_END', 'src', rid)
                        finally:
                            log.add('RUN_END', 'src', rid)
                src = TornadoSource(asynchronous=True)
            elif kind == 'custom_listener':
                # a source in the style of from_tcp / from_http_server: run() is a plain function that opens a listener and
                # returns at once; stop() is overridden and closes it
                runs_t = {'n': 0}

                class ListenerSource(Source):
                    server = None

                    def run(self):
                        runs_t['n'] += 1
                        rid = runs_t['n']
                        log.add('RUN_BEGIN', 'src', rid)
                        if self.stopped:
                            return              # stopped again before the loop got round to opening the listener
                        self.server = rid

                        async def serve():
                            while self.server == rid:
                                log.add('CYCLE_BEGIN', 'src', rid)
                                counter['n'] += 1
                                await asyncio.gather(*self._emit(counter['n']))
                                await asyncio.sleep(poll)
                                log.add('CYCLE_END', 'src', rid)
                        asyncio.ensure_future(serve())

                    def stop(self):
                        if not self.stopped:
                            self.server = None
                            self.stopped = True
                src = ListenerSource(asynchronous=True)
            else:
                class Custom(Source):
                    async def _run(self):
                        counter['n'] += 1
                        await asyncio.gather(*self._emit(counter['n']))
                        await asyncio.sleep(poll)
                src = Custom(asynchronous=True)
            log.name(src, 'src')
            # tag cycles with the run performing them
            runs = {'n': 0}
            orig_run = src.run

            async def run_wrapped():
                runs['n'] += 1
                rid = runs['n']
                run_of_task[asyncio.current_task()] = rid
                log.add('RUN_BEGIN', 'src', rid)
                try:
                    await orig_run()
                finally:
                    log.add('RUN_END', 'src', rid)
            if kind not in ('custom_tornado', 'custom_listener'):
                src.run = run_wrapped
            if hasattr(src, '_run') and kind not in ('from_iterable', 'from_iterable_list', 'custom_tornado', 'custom_listener'):
                orig_cycle = src._run

                async def cycle_wrapped():
                    rid = run_of_task.get(asyncio.current_task())
                    log.add('CYCLE_BEGIN', 'src', rid)
                    try:
                        await orig_cycle()
                    finally:
                        log.add('CYCLE_END', 'src', rid)
                src._run = cycle_wrapped
            # every emission of the source, attributed to the task performing it
            orig_emit = src._emit

            def emit_wrapped(x, metadata=None):
                if kind in ('custom_tornado', 'custom_listener'):
                    return orig_emit(x, metadata=metadata)
                log.add('SRC_EMIT', 'src', run_of_task.get(asyncio.current_task()), x)
                return orig_emit(x, metadata=metadata)
            src._emit = emit_wrapped
            svc = case['svc']
            k = {'n': 0}
            fail_at = case.get('fail_at')
            if case['sink'] == 'coro':
                async def sink(x):
                    i = k['n']
                    k['n'] += 1
                    log.add('CALLED', 'sk', x, i)
                    if svc:
                        await asyncio.sleep(svc)
                    if i == fail_at:
                        log.add('CONSUMER_FAILED', 'sk', x, i)
                        raise ConsumerFailedOnce(i)
                    log.add('END', 'sk', x, i)
            else:
                def sink(x):
                    i = k['n']
                    k['n'] += 1
                    log.add('CALLED', 'sk', x, i)
                    if i == fail_at:
                        log.add('CONSUMER_FAILED', 'sk', x, i)
                        raise ConsumerFailedOnce(i)
                    log.add('END', 'sk', x, i)
            ctl = src
            if case.get('via') == 'map_async':
                async def ident(x):
                    return x
                ctl = src.map_async(ident).sink(sink)
            else:
                src.sink(sink)

            def do(op):
                try:
                    do_(op)
                except Exception as ex:          # a lifecycle call that raises instead of taking effect (or being a no-op)
                    log.add('CALL_RAISED', 'src', op, ex)

            def do_(op):
                if op == 'start':
                    log.add('START_CALL', 'src', bool(src.stopped))
                    ctl.start()
                elif op == 'stop':
                    log.add('STOP_CALL', 'src', bool(src.stopped))
                    ctl.stop()
                else:
                    log.add('STOP_CALL', 'src', bool(src.stopped))
                    ctl.stop()
                    log.add('START_CALL', 'src', bool(src.stopped))
                    ctl.start()
            do('start')
            for t, op in case['ops']:
                loop.call_later(t, do, op)
            horizon = (case['ops'][-1][0] if case['ops'] else 0) + case['n_items'] * (0.75 + svc + poll) + 5
            reason = loop.drive(until_vt=horizon, max_iters=300000)
            if kind in ('from_textfile', 'filenames'):
                # whatever the history did: with the source running again, everything that exists on disk must
                # come out (the data is durable, a stop must not lose any of it)
                do('start')
                loop.drive(until_vt=horizon + 4 * poll + 6 * svc * 3 + 4, max_iters=300000)
                horizon = loop.time()
            do('stop')
            loop.drive(until_vt=horizon + 2 * poll + 2 * svc + 2, max_iters=100000)
            errors = list(env.errors)
            if kind == 'from_textfile':
                fh.close()
                wf.close()
    if tmp:
        shutil.rmtree(tmp, ignore_errors=True)
    if reason == 'iter-cap':
        return None, None
    for name, msg, exc in errors:
        if isinstance(exc, ConsumerFailedOnce):
            counters['polling_loops_ended_by_a_consumer_failure'] = counters.get('polling_loops_ended_by_a_consumer_failure', 0) + 1
            continue
        add('C18:loop-exception:%s' % (type(exc).__name__ if exc is not None else 'log'), '%s %s %r' % (name, msg[:200], exc))
    ev = log.ev
    if kind in ('custom', 'from_periodic', 'custom_tornado', 'custom_listener'):
        starts_take_effect(ev, ev[-1][1] if ev else 0, 2 * poll + 2 * case['svc'] + 0.5, kind, add, counters)
    for e in ev:
        if e[2] == 'CALL_RAISED':
            add('C18:lifecycle-call-raised:%s@%s' % (type(e[5]).__name__, kind + ('-through-' + case['via'] if case.get('via') else '')),
                '%s() at t=%s raised %r' % ('stop' if e[4] != 'start' else 'start', e[1], e[5]))
    # effective starts <-> runs
    eff_starts = [e for e in ev if e[2] == 'START_CALL' and e[4]]
    run_begins = [e for e in ev if e[2] == 'RUN_BEGIN']
    counters['order_checks'] = counters.get('order_checks', 0) + 1
    if len(run_begins) > len(eff_starts):
        add('C18:more-runs-than-effective-starts@%s' % kind, '%d start() calls on a stopped source, %d polling loops begun'
            % (len(eff_starts), len(run_begins)))
    if eff_starts and not run_begins:
        add('C18:start-had-no-effect@%s' % kind, 'start() on a stopped source began no polling loop')
    # (a) once a newer polling loop has begun a cycle / emitted, an older one must not begin another
    # (b) no new cycle / item while the source is stopped (the cycle in progress may finish)
    n_attr = 0
    newest = 0
    stopped_now = True
    for e in ev:
        if e[2] == 'START_CALL' and e[4]:
            stopped_now = False
        elif e[2] == 'STOP_CALL' and not e[4]:
            stopped_now = True
        elif e[2] == 'POLL':
            n_attr += 1
            if stopped_now:
                add('C18:polled-while-stopped@%s' % kind, 'the source polled its queue at t=%s while it was stopped (loop #%s)' % (e[1], e[4]))
        elif e[2] in ('CYCLE_BEGIN', 'SRC_EMIT'):
            if e[2] == 'SRC_EMIT' and kind not in ('from_iterable', 'from_iterable_list'):
                continue            # emissions inside a cycle are covered by the cycle
            rid = e[4]
            n_attr += 1
            what = 'began a new cycle' if e[2] == 'CYCLE_BEGIN' else 'emitted item %r' % (e[5],)
            if rid is not None:
                if rid < newest:
                    add('C18:two-polling-loops@%s' % kind,
                        'polling loop #%d %s at t=%s although loop #%d was already polling (%d loops begun in total)'
                        % (rid, what, e[1], newest, len(run_begins)))
                newest = max(newest, rid)
            if stopped_now:
                # CYCLE_BEGIN of a _run()-based source, or a new item taken by from_iterable (logged when the emission starts)
                add('C18:cycle-begun-while-stopped@%s' % kind, 'a polling loop %s at t=%s while the source was stopped' % (what, e[1]))
    counters['cycles_attributed_to_runs'] = counters.get('cycles_attributed_to_runs', 0) + n_attr
    delivered = [e[4] for e in ev if e[2] == 'CALLED']
    if kind in ('from_iterable', 'from_iterable_list') and case.get('none_at'):
        # items are identified by position: map what was delivered back onto the iterable (in-order subsequence)
        nums, p = [], 0
        for x in delivered:
            while p < len(items) and not (items[p] is x or (items[p] is not None and items[p] == x)):
                p += 1
            nums.append(p if p < len(items) else -1)
            p += 1
        if -1 in nums and kind == 'from_iterable':
            add('C18:duplicate-or-out-of-order@%s' % kind, 'iterable %r, delivered %r' % (items, delivered))
            nums = [n_ for n_ in nums if n_ >= 0]
    else:
        nums = [int(os.path.basename(x).split('.')[0]) if kind == 'filenames' else int(x) for x in delivered]
    if kind == 'from_iterable' and nums != list(range(len(nums))) and not any(b <= a for a, b in zip(nums, nums[1:])):
        # an iterator hands out each item once: an item the source has taken from it and not delivered is lost for good
        add('C18:item-taken-from-the-iterator-but-never-emitted@from_iterable', 'iterator over %d items, delivered positions %s'
            % (case['n_items'], nums[:30]))
    if kind != 'from_iterable_list' and any(b <= a for a, b in zip(nums, nums[1:])):
        add('C18:duplicate-or-out-of-order@%s' % kind, 'delivered %s' % nums[:40])
    if kind == 'from_iterable_list' or (kind == 'from_iterable' and not any(op in ('stop', 'stopstart') for _, op in case['ops'])):
        counters['exactness_runs'] = counters.get('exactness_runs', 0) + 1
        if nums != list(range(case['n_items'])) or len(delivered) != case['n_items']:
            add('C18:from_iterable-not-exact', 'iterable %r, delivered %r' % (items, delivered))
        # END(k) before CALLED(k+1)
        open_ = 0
        for e in ev:
            if e[2] == 'CALLED':
                if open_:
                    add('C18:from_iterable-did-not-wait-for-downstream', 'item %r taken while the consumer was still busy' % (e[4],))
                open_ += 1
            elif e[2] == 'END':
                open_ -= 1
    if kind in ('from_textfile', 'filenames') and not errors:
        counters['completeness_checks'] = counters.get('completeness_checks', 0) + 1
        if sorted(set(nums)) != list(range(1, counter['n'] + 1)):
            missing = sorted(set(range(1, counter['n'] + 1)) - set(nums))
            add('C18:item-lost-across-stop-start@%s' % kind, '%d items exist on disk, the source was running again at the end, '
                'but %s were never delivered (delivered %s)' % (counter['n'], missing[:10], nums[:40]))
    restarts = sum(1 for e in eff_starts) > 1
    if restarts:
        counters['restart_histories'] = counters.get('restart_histories', 0) + 1
    counters['events_observed'] = counters.get('events_observed', 0) + len(ev)
    sets.setdefault('source_kinds', set()).add(kind + ('[from_end]' if case.get('from_end') else ''))
    if case.get('via'):
        counters['histories_driven_from_the_far_end_of_a_pipeline'] = counters.get('histories_driven_from_the_far_end_of_a_pipeline', 0) + 1

    class Res:
        pass
    r = Res()
    r.interesting = bool(delivered) and (restarts or kind == 'from_iterable_list' or any(e[2] == 'STOP_CALL' and not e[4] for e in ev[:-1]))
    r.summary = {'delivered': nums[:20], 'runs': len(run_begins), 'effective_starts': len(eff_starts)}
    return r, viols


def gen_server_case(rng):
    ops = []
    for _ in range(rng.randrange(1, 9)):
        ops.append([rng.choice(['start', 'stop', 'stop', 'start', 'stopstart', 'startstop']), rng.random() < 0.6])
    return {'server': rng.choice(['from_tcp', 'from_http_server']), 'ops': ops}


def check_server_case(case, counters, sets):
    """from_tcp / from_http_server: run() opens a listening server and returns, stop() closes it.  Every listen() and stop()
    of a tornado TCPServer is recorded (port 0: the system picks a free port).  For any history of start/stop calls, with
    or without letting the loop run in between: no call raises; never two servers listening; once the loop has run, a
    server is listening iff the source is started."""
    from streamz import Stream
    from tornado.tcpserver import TCPServer
    viols, seen = [], set()

    def add(key, what):
        if key not in seen:
            seen.add(key)
            viols.append({'key': key, 'what': what, 'case': case})
    listening = []
    real_listen, real_stop = TCPServer.listen, TCPServer.stop

    def listen(self, port, *a, **k):
        r = real_listen(self, port, *a, **k)
        listening.append(self)
        return r

    def stop(self):
        if self in listening:
            listening.remove(self)
        return real_stop(self)
    TCPServer.listen, TCPServer.stop = listen, stop
    try:
        with virtual_env() as env:
            loop = env.loop
            src = (Stream.from_tcp if case['server'] == 'from_tcp' else Stream.from_http_server)(0, asynchronous=True)
            src.sink(lambda x: None)
            started = False
            for k, (op, then_run) in enumerate(case['ops']):
                for call in {'start': ['start'], 'stop': ['stop'], 'stopstart': ['stop', 'start'], 'startstop': ['start', 'stop']}[op]:
                    try:
                        getattr(src, call)()
                    except Exception as ex:            # noqa: BLE001
                        add('C18:%s-raised:%s@%s' % (call, type(ex).__name__, case['server']),
                            'op %d (%s): %s() raised %r; history so far %s' % (k, op, call, ex, case['ops'][:k + 1]))
                    started = call == 'start'
                    if len(listening) > 1:
                        add('C18:two-servers-listening@%s' % case['server'], 'after op %d (%s) %d servers are listening' % (k, op, len(listening)))
                if then_run:
                    loop.drive(until_vt=loop.time() + 1.0, max_iters=2000)
                    counters['server_states_checked'] = counters.get('server_states_checked', 0) + 1
                    if len(listening) != (1 if started else 0):
                        add('C18:server-state-after-%s@%s' % ('start' if started else 'stop', case['server']),
                            'after op %d (%s) and a turn of the loop the source is %s but %d server(s) are listening; history %s'
                            % (k, op, 'started' if started else 'stopped', len(listening), case['ops'][:k + 1]))
            try:
                src.stop()
            except Exception:                          # noqa: BLE001 -- already judged above
                pass
            loop.drive(until_vt=loop.time() + 1.0, max_iters=2000)
            for s_ in list(listening):
                real_stop(s_)
            for name, msg, exc in env.errors:
                add('C18:loop-exception:%s@%s' % (type(exc).__name__ if exc is not None else 'log', case['server']), '%s %s %r' % (name, msg[:200], exc))
    finally:
        TCPServer.listen, TCPServer.stop = real_listen, real_stop
    counters['server_histories'] = counters.get('server_histories', 0) + 1
    sets.setdefault('source_kinds', set()).add(case['server'])
    return viols


def check_kafka_case(case, counters, sets):
    """the batched Kafka source (in-memory client of vf/kafka_fake.py) through start/stop histories in virtual time: its
    polling loop is the coroutine poll_kafka(); at no time may two of them be alive once the loop has had a turn after
    the call that would have started the second, and no range may be handed out twice"""
    from tornado import gen
    from .. import kafka_fake
    from streamz import Stream
    viols, seen = [], set()

    def add(key, what):
        if key not in seen:
            seen.add(key)
            viols.append({'key': key, 'what': what, 'case': case})
    broker = kafka_fake.Broker('topic', 1)
    for _ in range(4):
        broker.produce(0)
    kafka_fake.install(broker)
    with virtual_env() as env:
        loop = env.loop
        with R.recording(env.now) as log:
            broker.log = log
            if case.get('kind') == 'from_kafka':
                src_node = src = Stream.from_kafka(['topic'], {'bootstrap.servers': 'fake', 'group.id': 'g'}, poll_interval=1.0, asynchronous=True)
            else:
                src_node = Stream.from_kafka_batched('topic', {'bootstrap.servers': 'fake', 'group.id': 'g', 'auto.offset.reset': 'earliest'},
                                                     poll_interval=1.0, max_batch_size=2, asynchronous=True)
                src = src_node.upstreams[0]
            active = {'n': 0}
            orig = src.poll_kafka

            @gen.coroutine
            def poll_tagged():
                active['n'] += 1
                log.add('RUN_BEGIN', 'src', active['n'])
                try:
                    yield orig()
                finally:
                    active['n'] -= 1
                    log.add('RUN_END', 'src', active['n'])
            src.poll_kafka = poll_tagged
            ranges = []
            if src is not src_node:
                src.sink(lambda part: ranges.append((part[4], part[5])))
            src_node.sink(lambda batch: None)
            t = 0.0
            for k, (gap, op) in enumerate(case['ops']):
                loop.drive(until_vt=loop.time() + gap, max_iters=50000)
                if k % 2 == 0:
                    broker.produce(0)
                for call in {'start': ['start'], 'stop': ['stop'], 'stopstart': ['stop', 'start']}[op]:
                    try:
                        getattr(src_node, call)() if call == 'start' else getattr(src, call)()
                    except Exception as ex:            # noqa: BLE001
                        add('C18:%s-raised:%s@kafka_%s' % (call, type(ex).__name__, case.get('kind', 'batched')), 'op %d: %s() raised %r' % (k, call, ex))
                loop.drive(until_vt=loop.time() + 0.01, max_iters=5000)          # one turn: a freshly scheduled loop begins
                counters['kafka_lifecycle_points_checked'] = counters.get('kafka_lifecycle_points_checked', 0) + 1
                if active['n'] > 1:
                    add('C18:two-polling-loops@kafka_%s' % case.get('kind', 'batched'), 'after op %d (%s at t=%s) %d poll_kafka() loops are alive; history %s'
                        % (k, op, loop.time(), active['n'], case['ops'][:k + 1]))
            src.stop()
            loop.drive(until_vt=loop.time() + 3.0, max_iters=50000)
            if active['n'] != 0:
                add('C18:polling-loop-survives-stop@kafka_%s' % case.get('kind', 'batched'), '%d poll_kafka() loops are still alive 3 poll intervals after stop()' % active['n'])
            if len(set(ranges)) != len(ranges):
                add('C18:duplicate-or-out-of-order@kafka_%s' % case.get('kind', 'batched'), 'ranges handed out: %s' % ranges[:20])
            broker.log = None
    counters['restart_histories'] = counters.get('restart_histories', 0) + 1
    sets.setdefault('source_kinds', set()).add('kafka_batched')
    return viols


def check_process_case(case, counters, sets):
    """from_process on a real event loop (real time, wide margins): a child prints a line every 30 ms; the source is stopped
    while the child is alive and still printing.  The read in progress may deliver one more line; the reading loop must
    not go on after that, and stopped must stay True."""
    import asyncio
    import sys
    import time
    from streamz import Stream
    viols = []
    got = []

    async def main():
        child = 'import time\nfor i in range(%d):\n    print(i, flush=True)\n    time.sleep(0.03)\n' % case['lines']
        src = Stream.from_process([sys.executable, '-u', '-c', child], asynchronous=True)
        src.sink(lambda x: got.append((time.time(), x)))
        src.start()
        t0 = time.time()
        while len(got) < case['stop_after'] and time.time() - t0 < 10:
            await asyncio.sleep(0.01)
        if len(got) < case['stop_after']:
            return None
        src.stop()
        t_stop = time.time()
        await asyncio.sleep(case['watch'])
        late = [x for t, x in got if t > t_stop]
        return late, bool(src.stopped)
    try:
        r = asyncio.run(asyncio.wait_for(main(), 30))
    except Exception as ex:         # noqa: BLE001
        return None
    if r is None:
        return None
    late, stopped = r
    counters['process_source_stops_checked'] = counters.get('process_source_stops_checked', 0) + 1
    if len(late) > 2 or not stopped:
        viols.append({'key': 'C18:reading-went-on-after-stop@from_process',
                      'what': 'stop() while the child was alive and printing every 30 ms: %d further lines were delivered in the following '
                              '%.1f s (at most the read in progress may complete), stopped=%r' % (len(late), case['watch'], stopped), 'case': case})
    sets.setdefault('source_kinds', set()).add('from_process')
    return viols


def starts_take_effect(ev, end_t, margin, kind, add, counters, cycle_kinds=('CYCLE_BEGIN', 'SRC_EMIT', 'POLL')):
    """bounded progress: after a start() on a stopped source that stays started for `margin` (a couple of poll intervals plus
    the consumer's service time), a polling cycle has begun -- whether a new loop was started or an old one carried on"""
    spans, t0 = [], None
    for e in ev:
        if e[2] == 'START_CALL' and e[4]:
            t0 = e[1]
        elif e[2] == 'STOP_CALL' and not e[4] and t0 is not None:
            spans.append((t0, e[1]))
            t0 = None
    if t0 is not None:
        spans.append((t0, end_t))
    cyc = [e[1] for e in ev if e[2] in cycle_kinds]
    died = [e[1] for e in ev if e[2] == 'CONSUMER_FAILED']
    for a, b in spans:
        if any(a <= t <= b for t in died):
            continue            # the loop was ended by the consumer's exception inside this span: not a matter of start()
        if b - a >= margin:
            counters['effective_starts_checked_for_effect'] = counters.get('effective_starts_checked_for_effect', 0) + 1
            if not any(a <= t <= b for t in cyc):
                add('C18:start-had-no-effect@%s' % kind, 'start() on the stopped source at t=%s; it stayed started until t=%s and no polling '
                    'cycle began in that time' % (a, b))
                return


class ConsumerFailedOnce(Exception):
    pass


def check_http_keepalive_case(case, counters, sets):
    """from_http_server on a real loop and a real socket: a client keeps its connection open (HTTP/1.1 keep-alive), POSTs
    `before` bodies, the source is stopped, and the client POSTs `after` more bodies on the connection it already has.
    stop() only makes the server take no new connections; nothing may be emitted after it all the same (the request being
    handled when stop() is called -- none here: every answer has been read -- could finish).  The verdict is on the order
    of events, not on wall-clock time."""
    import time
    from streamz import Stream
    got, viols = [], []

    async def main():
        src = Stream.from_http_server(0, asynchronous=True)
        src.sink(lambda b: got.append((bool(src.stopped), b)))
        src.start()
        for _ in range(200):
            if getattr(src, 'server', None) is not None and getattr(src.server, '_sockets', None):
                break
            await asyncio.sleep(0.01)
        else:
            return None
        port = list(src.server._sockets.values())[0].getsockname()[1]
        reader, writer = await asyncio.open_connection('127.0.0.1', port)

        async def post(body):
            writer.write(b'POST / HTTP/1.1\r\nHost: localhost\r\nContent-Length: %d\r\n\r\n%s' % (len(body), body))
            await writer.drain()
            try:
                head = await asyncio.wait_for(reader.readuntil(b'\r\n\r\n'), 5)
            except (asyncio.IncompleteReadError, asyncio.TimeoutError, ConnectionError):
                return None             # the server closed the connection: fine
            status = int(head.split()[1])
            n = [int(ln.split(b':')[1]) for ln in head.split(b'\r\n') if ln.lower().startswith(b'content-length')]
            if n and n[0]:
                await reader.readexactly(n[0])
            return status
        answers = []
        for i in range(case['before']):
            answers.append(await post(b'before-%d' % i))
        src.stop()
        for i in range(case['after']):
            answers.append(await post(b'after-%d' % i))
            if answers[-1] is None:
                break
        writer.close()
        await asyncio.sleep(0.05)
        return answers
    try:
        answers = asyncio.run(asyncio.wait_for(main(), 30))
    except Exception:       # noqa: BLE001
        return None
    if answers is None or answers[:case['before']] != [200] * case['before']:
        return None
    counters['server_states_checked'] = counters.get('server_states_checked', 0) + 1
    counters['keep_alive_requests_after_stop'] = counters.get('keep_alive_requests_after_stop', 0) + case['after']
    late = [b for stopped, b in got if stopped]
    if late:
        viols.append({'key': 'C18:emitted-after-stop@from_http_server-open-connection',
                      'what': 'a client holding a keep-alive connection POSTed %d bodies after stop() had returned: %s were emitted '
                              '(answers %s)' % (case['after'], late[:5], answers), 'case': case})
    sets.setdefault('source_kinds', set()).add('from_http_server[socket]')
    return viols


def check_pdf_case(case, counters, sets):
    """PeriodicDataFrame / Random (streamz.dataframe): a source that polls a callback from its own coroutine, with start() and
    stop() of its own.  Same oracle, in virtual time: the harness only makes the inner Source asynchronous (so that it lives
    on the virtual loop) and tags every polling coroutine."""
    import pandas as pd
    import streamz.dataframe.core as dcore
    viols, seen = [], set()

    def add(key, what):
        if key not in seen:
            seen.add(key)
            viols.append({'key': key, 'what': what, 'case': case})
    orig_source, orig_cb = dcore.Source, dcore.PeriodicDataFrame.__dict__['_cb']
    try:
        with virtual_env() as env:
            loop = env.loop
            with R.recording(env.now) as log:
                run_of_task, runs, n = {}, {'n': 0}, {'n': 0}
                inner = orig_cb.__func__

                async def cb_tagged(*a):
                    runs['n'] += 1
                    rid = runs['n']
                    run_of_task[asyncio.current_task()] = rid
                    log.add('RUN_BEGIN', 'src', rid)
                    try:
                        await inner(*a)
                    finally:
                        log.add('RUN_END', 'src', rid)
                dcore.Source = lambda: orig_source(asynchronous=True)
                dcore.PeriodicDataFrame._cb = staticmethod(cb_tagged)

                def datafn(last=None, now=None, **kw):
                    task = asyncio.current_task() if asyncio._get_running_loop() is not None else None
                    if task in run_of_task:
                        n['n'] += 1
                        log.add('SRC_EMIT', 'src', run_of_task[task], n['n'])
                    return pd.DataFrame({'x': [1.0]})
                pdf = dcore.PeriodicDataFrame(datafn, interval='%dms' % int(case['poll'] * 1000), start=False)

                def do(op):
                    for o in (('stop', 'start') if op == 'stopstart' else (op,)):
                        log.add('START_CALL' if o == 'start' else 'STOP_CALL', 'src', not pdf.continue_[0])
                        getattr(pdf, o)()
                do('start')
                for t, op in case['ops']:
                    loop.call_later(t, do, op)
                horizon = (case['ops'][-1][0] if case['ops'] else 0) + 6 * case['poll']
                reason = loop.drive(until_vt=horizon, max_iters=200000)
                do('stop')
                loop.drive(until_vt=horizon + 3 * case['poll'], max_iters=100000)
                errors = list(env.errors)
    finally:
        dcore.Source = orig_source
        dcore.PeriodicDataFrame._cb = orig_cb
    if reason == 'iter-cap':
        return None
    for name, msg, exc in errors:
        add('C18:loop-exception:%s' % (type(exc).__name__ if exc is not None else 'log'), '%s %s %r' % (name, msg[:200], exc))
    ev = log.ev
    eff_starts = sum(1 for e in ev if e[2] == 'START_CALL' and e[4])
    n_runs = sum(1 for e in ev if e[2] == 'RUN_BEGIN')
    counters['order_checks'] = counters.get('order_checks', 0) + 1
    if n_runs > eff_starts:
        add('C18:more-runs-than-effective-starts@PeriodicDataFrame', '%d start() calls on a stopped source, %d polling loops begun' % (eff_starts, n_runs))
    newest, stopped_now, after_stop = 0, True, {}
    for e in ev:
        if e[2] == 'START_CALL' and e[4]:
            stopped_now = False
            after_stop = {}
        elif e[2] == 'STOP_CALL' and not e[4]:
            stopped_now = True
            after_stop = {}
        elif e[2] == 'SRC_EMIT':
            rid = e[4]
            counters['cycles_attributed_to_runs'] = counters.get('cycles_attributed_to_runs', 0) + 1
            if rid < newest:
                add('C18:two-polling-loops@PeriodicDataFrame', 'polling loop #%d polled at t=%s although loop #%d was already polling '
                    '(%d loops begun in total)' % (rid, e[1], newest, n_runs))
            newest = max(newest, rid)
            if stopped_now:
                after_stop[rid] = after_stop.get(rid, 0) + 1
                if after_stop[rid] > 1:         # the cycle in progress (sleep, then poll) may finish: one more poll, not two
                    add('C18:cycle-begun-while-stopped@PeriodicDataFrame', 'loop #%d polled a second time after stop(), at t=%s' % (rid, e[1]))
    starts_take_effect(ev, ev[-1][1] if ev else 0, 2 * case['poll'] + 0.5, 'PeriodicDataFrame', add, counters)
    if eff_starts > 1:
        counters['restart_histories'] = counters.get('restart_histories', 0) + 1
    sets.setdefault('source_kinds', set()).add('PeriodicDataFrame')
    return viols


def run_shard(seed, tier, shard, nshards):
    rng = random.Random('%s-%d-%d-%s' % (PID, seed, shard, tier))
    out = {'evaluations': 0, 'keys': [], 'violations': [], 'samples': [], 'counters': {},
           'sets': {}, 'inconclusive': []}
    for k in range(4 if tier == 'thorough' else 1):
        case = {'process': True, 'lines': 120, 'stop_after': rng.choice([1, 3, 6]), 'watch': 0.6}
        v = check_process_case(case, out['counters'], out['sets'])
        out['evaluations'] += 1
        if v is None:
            out['inconclusive'].append('from_process case %d: child produced nothing in time' % k)
        else:
            out['violations'].extend(v)
            out['keys'].append(progs.prog_key(case, None))
    for k in range(n_cases(tier) // 10):
        case = {'kafka': True, 'ops': [[rng.choice([0, 0.25, 0.5, 1.0, 1.5, 2.5]), rng.choice(['start', 'stop', 'stopstart', 'stopstart', 'start'])]
                                       for _ in range(rng.randrange(1, 8))]}
        case['ops'].insert(0, [0, 'start'])
        case['kind'] = rng.choice(['batched', 'batched', 'from_kafka'])
        out['violations'].extend(check_kafka_case(case, out['counters'], out['sets']))
        out['evaluations'] += 1
        out['keys'].append(progs.prog_key(case, None))
    for k in range(6 if tier == 'thorough' else 2):
        case = {'http_keepalive': True, 'before': rng.choice([0, 1, 3]), 'after': rng.choice([1, 2, 4])}
        v = check_http_keepalive_case(case, out['counters'], out['sets'])
        out['evaluations'] += 1
        if v is None:
            out['inconclusive'].append('from_http_server socket case %d: server did not come up / did not answer' % k)
        else:
            out['violations'].extend(v)
            out['keys'].append(progs.prog_key(case, None))
    for k in range(n_cases(tier) // 10):
        poll = rng.choice([0.5, 1.0])
        t, ops = 0.0, []
        for _ in range(rng.randrange(1, 7)):
            t += rng.choice([0, 0.25, 0.5, 1.0, 1.0, 2.0])
            ops.append([round(t, 3), rng.choice(['start', 'stop', 'stopstart', 'stopstart'])])
        case = {'pdf': True, 'poll': poll, 'ops': ops}
        v = check_pdf_case(case, out['counters'], out['sets'])
        out['evaluations'] += 1
        if v is None:
            out['inconclusive'].append('PeriodicDataFrame case %d: iteration cap' % k)
            continue
        out['violations'].extend(v)
        out['keys'].append(progs.prog_key(case, None))
    for k in range(n_cases(tier) // 10):
        case = gen_server_case(rng)
        out['violations'].extend(check_server_case(case, out['counters'], out['sets']))
        out['evaluations'] += 1
        out['keys'].append(progs.prog_key(case, None))
    for k in range(n_cases(tier)):
        case = one_case(rng, tier)
        r, viols = check_case(case, out['counters'], out['sets'])
        out['evaluations'] += 1
        if viols is None:
            out['inconclusive'].append('case %d: iteration cap' % k)
            continue
        if r.interesting:
            out['keys'].append(progs.prog_key(case, None))
        out['violations'].extend(viols)
        if len(out['samples']) < 3 and r.interesting and len(case['ops']) >= 3:
            out['samples'].append({'case': case, 'observed': r.summary})
    return out


def replay(case):
    if case.get('kafka'):
        return check_kafka_case(case, {}, {})
    if case.get('process'):
        return check_process_case(case, {}, {}) or []
    if case.get('server'):
        return check_server_case(case, {}, {})
    if case.get('pdf'):
        return check_pdf_case(case, {}, {}) or []
    if case.get('http_keepalive'):
        return check_http_keepalive_case(case, {}, {}) or []
    _, viols = check_case(case, {}, {})
    return viols or []
