"""E3 -- probes: instrumented reference counter, consumers, helpers."""
import sys

from streamz.core import RefCounter


def _blame():
    """innermost streamz frame (class.method) that touched the counter"""
    f = sys._getframe(2)
    while f is not None:
        co = f.f_code
        fn = co.co_filename
        if '/streamz/' in fn and '/verif/' not in fn and co.co_name not in (
                '_retain_refs', '_release_refs', 'retain', 'release'):
            q = getattr(co, 'co_qualname', co.co_name)
            return q
        f = f.f_back
    return '?'


class _ProbeLoop:
    """Stands where RefCounter expects its loop: the instant add_callback is
    called *is* the completion signal (the trigger)."""
    def __init__(self, ref, real_loop):
        self.ref = ref
        self.real = real_loop

    def add_callback(self, cb, *a, **k):
        r = self.ref
        r.triggers += 1
        r.trigger_blame.append(r._last_blame)
        if r.log is not None:
            r.log.add('REF', r.uid, 'trigger', r.count, r._last_blame)
        if self.real is not None:
            self.real.add_callback(cb, *a, **k)
        else:
            cb(*a, **k)


class ProbeRef(RefCounter):
    """The real RefCounter arithmetic, observed.  Online assertions are
    recorded as flags (never raised into streamz code)."""

    def __init__(self, uid, log=None, real_loop=None):
        self.uid = uid
        self.log = log
        self.triggers = 0
        self.fired = 0
        self.trigger_blame = []
        self.negative = []              # blames of releases that made count < 0
        self.retain_after_trigger = []  # blames
        self.max_count = 0
        self._last_blame = '?'
        RefCounter.__init__(self, initial=0, cb=self._cb, loop=_ProbeLoop(self, real_loop))

    def _cb(self):
        self.fired += 1
        if self.log is not None:
            self.log.add('REF', self.uid, 'callback', self.count, '')

    def retain(self, n=1):
        b = _blame()
        self._last_blame = b
        before = self.count
        RefCounter.retain(self, n)
        if n > 0 and self.triggers:
            self.retain_after_trigger.append(b)
        if self.count > self.max_count:
            self.max_count = self.count
        if self.log is not None:
            self.log.add('REF', self.uid, 'retain', self.count, b, n, before)

    def release(self, n=1):
        b = _blame()
        self._last_blame = b
        before = self.count
        if self.log is not None:
            self.log.add('REF', self.uid, 'release', before - n, b, n, before)
        RefCounter.release(self, n)
        if self.count < 0:
            self.negative.append(b)


class CallSink:
    """Synchronous recording consumer."""
    def __init__(self, sid, calls):
        self.sid = sid
        self.calls = calls

    def __call__(self, x):
        self.calls.append((self.sid, x))
