#!/bin/bash
# usage: tools/try_patch.sh <patch.diff> <tier> <PID> [PID ...]
# Runs the named checks against a scratch worktree of /repo with the patch applied (never touches /repo itself),
# prints one line per check, removes the worktree, and restores the evidence files.
set -u
PATCH="$1"; TIER="$2"; shift 2
WT=/tmp/try_$$
git -C /repo worktree add -q "$WT" HEAD || exit 2
if ! git -C "$WT" apply "$PATCH"; then echo "PATCH DOES NOT APPLY"; git -C /repo worktree remove --force "$WT"; exit 2; fi
cd /verif
for P in "$@"; do
  OUT=$(STREAMZ_SRC="$WT" VERIF_SEED=${VERIF_SEED:-0} timeout 1200 ./check "$P" "$TIER" 2>&1)
  RC=$?
  KEYS=$(echo "$OUT" | grep -E "^  violation " | awk '{print $2}' | sort -u | tr '\n' ' ')
  echo "$P rc=$RC ${KEYS}"
done
git -C /repo worktree remove --force "$WT"
git -C /verif checkout -- evidence 2>/dev/null
rm -f /verif/replays/*.json
